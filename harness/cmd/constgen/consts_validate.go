package main

import (
	"github.com/MixinNetwork/mixin/common"
	"github.com/MixinNetwork/mixin/config"
	"github.com/MixinNetwork/mixin/crypto"
)

// Constants of coq/Model/Validate.v (C01, C05).
func init() {
	Z("ValTxVersionHashSignature", common.TxVersionHashSignature, "common/transaction.go")
	Z("ValExtraSizeGeneralLimit", common.ExtraSizeGeneralLimit, "common/transaction.go")
	Z("ValInputIndexLimit", common.InputIndexLimit, "common/transaction.go")
	Z("ValExtraSizeStorageStep", common.ExtraSizeStorageStep, "common/transaction.go")
	Z("ValExtraSizeStorageCapacity", common.ExtraSizeStorageCapacity, "common/transaction.go")
	B("ValExtraStoragePriceStep", []byte(common.ExtraStoragePriceStep), "common/transaction.go")
	Z("ValSliceCountLimit", common.SliceCountLimit, "common/transaction.go")
	Z("ValReferencesCountLimit", common.ReferencesCountLimit, "common/transaction.go")
	Z("ValMaximumEncodingInt", common.MaximumEncodingInt, "common/encoding.go")
	Z("ValTransactionMaximumSize", config.TransactionMaximumSize, "config/reader.go")
	B("ValWithdrawalClaimFee", []byte(config.WithdrawalClaimFee), "config/reader.go")
	dbg := 0
	if config.Debug {
		dbg = 1
	}
	Z("ValConfigDebug", dbg, "config/reader.go")

	Z("ValOutputTypeScript", common.OutputTypeScript, "common/transaction.go")
	Z("ValOutputTypeWithdrawalSubmit", common.OutputTypeWithdrawalSubmit, "common/transaction.go")
	Z("ValOutputTypeNodePledge", common.OutputTypeNodePledge, "common/transaction.go")
	Z("ValOutputTypeNodeAccept", common.OutputTypeNodeAccept, "common/transaction.go")
	Z("ValOutputTypeNodeRemove", common.OutputTypeNodeRemove, "common/transaction.go")
	Z("ValOutputTypeWithdrawalClaim", common.OutputTypeWithdrawalClaim, "common/transaction.go")
	Z("ValOutputTypeNodeCancel", common.OutputTypeNodeCancel, "common/transaction.go")
	Z("ValOutputTypeCustodianUpdateNodes", common.OutputTypeCustodianUpdateNodes, "common/transaction.go")
	Z("ValOutputTypeCustodianSlashNodes", common.OutputTypeCustodianSlashNodes, "common/transaction.go")

	Z("ValTransactionTypeScript", common.TransactionTypeScript, "common/transaction.go")
	Z("ValTransactionTypeMint", common.TransactionTypeMint, "common/transaction.go")
	Z("ValTransactionTypeDeposit", common.TransactionTypeDeposit, "common/transaction.go")
	Z("ValTransactionTypeWithdrawalSubmit", common.TransactionTypeWithdrawalSubmit, "common/transaction.go")
	Z("ValTransactionTypeWithdrawalClaim", common.TransactionTypeWithdrawalClaim, "common/transaction.go")
	Z("ValTransactionTypeNodePledge", common.TransactionTypeNodePledge, "common/transaction.go")
	Z("ValTransactionTypeNodeAccept", common.TransactionTypeNodeAccept, "common/transaction.go")
	Z("ValTransactionTypeNodeRemove", common.TransactionTypeNodeRemove, "common/transaction.go")
	Z("ValTransactionTypeNodeCancel", common.TransactionTypeNodeCancel, "common/transaction.go")
	Z("ValTransactionTypeCustodianUpdateNodes", common.TransactionTypeCustodianUpdateNodes, "common/transaction.go")
	Z("ValTransactionTypeCustodianSlashNodes", common.TransactionTypeCustodianSlashNodes, "common/transaction.go")
	Z("ValTransactionTypeUnknown", common.TransactionTypeUnknown, "common/transaction.go")

	Z("ValOperator64", common.Operator64, "common/script.go")
	Z("ValOperatorSum", common.OperatorSum, "common/script.go")
	Z("ValOperatorCmp", common.OperatorCmp, "common/script.go")
	// the storage script the code spells "fffe40" and NewThresholdScript(1)
	B("ValStorageScript", []byte(common.NewThresholdScript(common.Operator64)), "common/script.go (NewThresholdScript(Operator64) = fffe40)")
	B("ValThresholdScript1", []byte(common.NewThresholdScript(1)), "common/script.go (NewThresholdScript(1))")

	B("ValMintGroupUniversal", []byte(common.VerifValMintGroupUniversal), "common/mint.go")
	Z("ValCustodianNodeExtraSize", common.VerifValCustodianNodeExtraSize, "common/custodian.go")
	Z("ValCustodianNodeActionUpdate", common.VerifValCustodianNodeActionUpdate, "common/custodian.go")
	Z("ValCustodianNodesMinimumCount", common.VerifValCustodianNodesMinimumCount, "common/custodian.go")
	Z("ValCustodianNodeNewPrice", common.VerifValCustodianNodeNewPrice, "common/custodian.go")
	Z("ValCustodianNodeUpdatePrice", common.VerifValCustodianNodeUpdatePrice, "common/custodian.go")

	H("ValXINAssetId", common.XINAssetId[:], "common/asset.go")
	assets := []struct {
		name string
		id   crypto.Hash
	}{
		{"Bitcoin", common.BitcoinAssetId}, {"Ethereum", common.EthereumAssetId}, {"BOX", common.BOXAssetId},
		{"MOB", common.MOBAssetId}, {"USDTEthereum", common.USDTEthereumAssetId}, {"USDTTRON", common.USDTTRONAssetId},
		{"PandoUSD", common.PandoUSDAssetId}, {"USDC", common.USDCAssetId}, {"EOS", common.EOSAssetId},
		{"SOL", common.SOLAssetId}, {"UNI", common.UNIAssetId}, {"DOGE", common.DOGEAssetId},
	}
	for _, a := range assets {
		H("ValAsset"+a.name, a.id[:], "common/asset.go")
		Z("ValCap"+a.name, common.VerifIntegerBig(common.GetAssetCapacity(a.id)), "common/asset.go GetAssetCapacity")
	}
	Z("ValCapXIN", common.VerifIntegerBig(common.GetAssetCapacity(common.XINAssetId)), "common/asset.go GetAssetCapacity")
	Z("ValCapDefault", common.VerifIntegerBig(common.GetAssetCapacity(crypto.Hash{1})), "common/asset.go GetAssetCapacity default")
}
