package main

import (
	"github.com/MixinNetwork/mixin/common"
	"github.com/MixinNetwork/mixin/config"
	"github.com/MixinNetwork/mixin/kernel"
	"github.com/MixinNetwork/mixin/storage"
)

// Constants of the mint model (coq/Model/Mint.v, C25) and of the work
// accounting model (coq/Model/Work.v, C26).  Amounts are in units of 10^-8.
func init() {
	Z("MintPoolUnits", common.VerifIntegerBig(kernel.MintPool), "kernel/mint.go MintPool")
	px, py := common.VerifRationParts(kernel.MintYearPercent)
	Z("MintYearPercentNum", px, "kernel/mint.go MintYearPercent (numerator as stored)")
	Z("MintYearPercentDen", py, "kernel/mint.go MintYearPercent (denominator as stored)")
	Z("MintYearDays", kernel.MintYearDays, "kernel/mint.go")
	Z("MintLegacyEnding", kernel.KernelNetworkLegacyEnding, "kernel/mint.go KernelNetworkLegacyEnding")
	Z("MintMinNodes", config.KernelMinimumNodesCount, "config/reader.go KernelMinimumNodesCount")
	Z("MintMaxNodes", config.KernelMaximumNodesCount, "config/reader.go KernelMaximumNodesCount")
	Z("MintTimeBegin", config.KernelMintTimeBegin, "config/reader.go KernelMintTimeBegin")
	Z("MintTimeEnd", config.KernelMintTimeEnd, "config/reader.go KernelMintTimeEnd")
	Z("WorkDayNanos", storage.DAY_U64, "storage/badger_work.go DAY_U64")
	Z("MintOneDayNanos", kernel.OneDay, "kernel/mint.go OneDay")
}
