package main

import (
	"github.com/MixinNetwork/mixin/common"
	"github.com/MixinNetwork/mixin/config"
	"github.com/MixinNetwork/mixin/crypto"
	"github.com/MixinNetwork/mixin/kernel"
)

// Constants of the kernel snapshot model (coq/Model/KernelSnap.v): transaction
// and output type codes, batch limit, consensus reference fork constants, and
// the per-asset capacities of common.GetAssetCapacity (C16, C28).
func init() {
	f := "common/transaction.go"
	Z("KsOutScript", common.OutputTypeScript, f)
	Z("KsOutWithdrawalSubmit", common.OutputTypeWithdrawalSubmit, f)
	Z("KsOutNodePledge", common.OutputTypeNodePledge, f)
	Z("KsOutNodeAccept", common.OutputTypeNodeAccept, f)
	Z("KsOutNodeRemove", common.OutputTypeNodeRemove, f)
	Z("KsOutWithdrawalClaim", common.OutputTypeWithdrawalClaim, f)
	Z("KsOutNodeCancel", common.OutputTypeNodeCancel, f)
	Z("KsOutCustodianUpdateNodes", common.OutputTypeCustodianUpdateNodes, f)
	Z("KsOutCustodianSlashNodes", common.OutputTypeCustodianSlashNodes, f)
	Z("KsTxScript", common.TransactionTypeScript, f)
	Z("KsTxMint", common.TransactionTypeMint, f)
	Z("KsTxDeposit", common.TransactionTypeDeposit, f)
	Z("KsTxWithdrawalSubmit", common.TransactionTypeWithdrawalSubmit, f)
	Z("KsTxWithdrawalClaim", common.TransactionTypeWithdrawalClaim, f)
	Z("KsTxNodePledge", common.TransactionTypeNodePledge, f)
	Z("KsTxNodeAccept", common.TransactionTypeNodeAccept, f)
	Z("KsTxNodeRemove", common.TransactionTypeNodeRemove, f)
	Z("KsTxNodeCancel", common.TransactionTypeNodeCancel, f)
	Z("KsTxCustodianUpdateNodes", common.TransactionTypeCustodianUpdateNodes, f)
	Z("KsTxCustodianSlashNodes", common.TransactionTypeCustodianSlashNodes, f)
	Z("KsTxUnknown", common.TransactionTypeUnknown, f)
	Z("KsSliceCountLimit", common.SliceCountLimit, f)
	Z("KsSnapshotTransactionsMaximum", common.SnapshotTransactionsMaximum, "common/snapshot.go")
	Z("KsConsensusReferenceForkAt", uint64(kernel.VerifC28ConsensusReferenceForkAt), "kernel/hack.go")
	Z("KsMintDayGapSkipForkBatch", uint64(kernel.VerifC28MintDayGapSkipForkBatch), "kernel/hack.go")
	Z("KsWithdrawalClaimFee", common.VerifIntegerBig(common.NewIntegerFromString(config.WithdrawalClaimFee)), "config/reader.go")
	Z("KsInputIndexLimit", common.InputIndexLimit, f)
	Z("KsReferencesCountLimit", common.ReferencesCountLimit, f)

	a := "common/asset.go"
	for _, e := range []struct {
		n  string
		id crypto.Hash
	}{
		{"XIN", common.XINAssetId}, {"BTC", common.BitcoinAssetId}, {"ETH", common.EthereumAssetId},
		{"BOX", common.BOXAssetId}, {"MOB", common.MOBAssetId}, {"USDTE", common.USDTEthereumAssetId},
		{"USDTT", common.USDTTRONAssetId}, {"PUSD", common.PandoUSDAssetId}, {"USDC", common.USDCAssetId},
		{"EOS", common.EOSAssetId}, {"SOL", common.SOLAssetId}, {"UNI", common.UNIAssetId}, {"DOGE", common.DOGEAssetId},
	} {
		H("KsAsset"+e.n, e.id[:], a)
		Z("KsCap"+e.n, common.VerifIntegerBig(common.GetAssetCapacity(e.id)), a)
	}
	Z("KsCapDefault", common.VerifIntegerBig(common.GetAssetCapacity(crypto.Hash{1})), a)
}
