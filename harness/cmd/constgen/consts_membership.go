package main

import (
	"encoding/hex"
	"time"

	"github.com/MixinNetwork/mixin/common"
	"github.com/MixinNetwork/mixin/config"
	"github.com/MixinNetwork/mixin/kernel"
)

// constants of Model/Membership.v and Model/Finality.v (C09, C11)
func init() {
	Z("MbrHour", int64(time.Hour), "time.Hour")
	Z("MbrMinute", int64(time.Minute), "time.Minute")
	Z("MbrOneDay", uint64(kernel.VerifC09OneDay), "kernel/mint.go")
	Z("MbrSnapshotRoundGap", uint64(config.SnapshotRoundGap), "config/reader.go")
	Z("MbrSnapshotReferenceThreshold", int64(config.SnapshotReferenceThreshold), "config/reader.go")
	Z("MbrKernelMinimumNodesCount", int64(config.KernelMinimumNodesCount), "config/reader.go")
	Z("MbrKernelNodeAcceptTimeBegin", int64(config.KernelNodeAcceptTimeBegin), "config/reader.go")
	Z("MbrKernelNodeAcceptTimeEnd", int64(config.KernelNodeAcceptTimeEnd), "config/reader.go")
	Z("MbrKernelNodePledgePeriodMinimum", int64(config.KernelNodePledgePeriodMinimum), "config/reader.go")
	Z("MbrKernelNodeAcceptPeriodMinimum", int64(config.KernelNodeAcceptPeriodMinimum), "config/reader.go")
	Z("MbrForkAt", uint64(kernel.VerifC09ConsensusNodeRemovalSignerSetForkAt), "kernel/hack.go")
	hh, err := hex.DecodeString(kernel.VerifC09NodeRemovalHackSnapshotHash)
	if err != nil || len(hh) != 32 {
		panic("hack hash")
	}
	H("MbrHackHash", hh, "kernel/hack.go")
	Z("MbrSnapshotVersion", int64(common.SnapshotVersionCommonEncoding), "common/snapshot.go")
	Z("MbrTxMint", int64(common.TransactionTypeMint), "common/transaction.go")
	Z("MbrTxNodePledge", int64(common.TransactionTypeNodePledge), "common/transaction.go")
	Z("MbrTxNodeRemove", int64(common.TransactionTypeNodeRemove), "common/transaction.go")
	Z("MbrTxCustodianUpdateNodes", int64(common.TransactionTypeCustodianUpdateNodes), "common/transaction.go")
	Z("MbrTxCustodianSlashNodes", int64(common.TransactionTypeCustodianSlashNodes), "common/transaction.go")
	Z("MbrInvalidThreshold", int64(1000), "kernel/node.go ConsensusThreshold (literal; checked by the harness)")
}
