package main

import (
	"github.com/MixinNetwork/mixin/common"
	"github.com/MixinNetwork/mixin/config"
	"github.com/MixinNetwork/mixin/crypto"
)

// Constants of the finalization model (coq/Model/Finalize.v): output and
// transaction type codes, the asset capacity table, node period offsets.
func init() {
	f := "common/transaction.go"
	Z("Fin_OutScript", common.OutputTypeScript, f)
	Z("Fin_OutWithdrawalSubmit", common.OutputTypeWithdrawalSubmit, f)
	Z("Fin_OutNodePledge", common.OutputTypeNodePledge, f)
	Z("Fin_OutNodeAccept", common.OutputTypeNodeAccept, f)
	Z("Fin_OutNodeRemove", common.OutputTypeNodeRemove, f)
	Z("Fin_OutWithdrawalClaim", common.OutputTypeWithdrawalClaim, f)
	Z("Fin_OutNodeCancel", common.OutputTypeNodeCancel, f)
	Z("Fin_OutCustodianUpdateNodes", common.OutputTypeCustodianUpdateNodes, f)
	Z("Fin_OutCustodianSlashNodes", common.OutputTypeCustodianSlashNodes, f)

	Z("Fin_AcceptPeriod", uint64(config.KernelNodeAcceptPeriodMinimum), "config/reader.go")
	Z("Fin_PledgePeriod", uint64(config.KernelNodePledgePeriodMinimum), "config/reader.go")

	a := "common/asset.go"
	for _, e := range []struct {
		n  string
		id crypto.Hash
	}{
		{"BTC", common.BitcoinAssetId}, {"ETH", common.EthereumAssetId}, {"XIN", common.XINAssetId},
		{"BOX", common.BOXAssetId}, {"MOB", common.MOBAssetId}, {"USDTETH", common.USDTEthereumAssetId},
		{"USDTTRON", common.USDTTRONAssetId}, {"PUSD", common.PandoUSDAssetId}, {"USDC", common.USDCAssetId},
		{"EOS", common.EOSAssetId}, {"SOL", common.SOLAssetId}, {"UNI", common.UNIAssetId}, {"DOGE", common.DOGEAssetId},
	} {
		H("Fin_Asset_"+e.n, e.id[:], a)
		Z("Fin_Cap_"+e.n, common.VerifIntegerBig(common.GetAssetCapacity(e.id)), a)
	}
	Z("Fin_Cap_Default", common.VerifIntegerBig(common.GetAssetCapacity(crypto.Hash{1})), a)
}
