package main

import (
	"math/big"
	"time"

	"filippo.io/edwards25519"
	"github.com/MixinNetwork/mixin/common"
	"github.com/MixinNetwork/mixin/crypto"
	"github.com/MixinNetwork/mixin/kernel"
	"github.com/MixinNetwork/mixin/p2p"
	"github.com/MixinNetwork/mixin/util/base58"
)

// Constants of coq/Model/Auth.v (C30) and of GhostKey.v / Base58.v / Address.v /
// HexText.v (C32).  Literals that only live inside function bodies (the 137 of
// AuthenticateAs, the base58 alphabet, the checksum width) are read off the
// behaviour of the exported functions on the current tree.
func init() {
	// ---- C30 ----
	seed := make([]byte, 64)
	for i := range seed {
		seed[i] = byte(i + 1)
	}
	signer := common.NewAddressFromSeed(seed)
	node := kernel.VerifAuthNode(crypto.Blake3Hash([]byte("constgen")), signer, true)
	msg := node.BuildAuthenticationMessage(crypto.Hash{})
	Z("AuthMsgLen", len(msg), "kernel/node.go (length of BuildAuthenticationMessage output)")
	Z("AuthTimestampSize", 8, "kernel/node.go (binary.BigEndian.PutUint64)")
	Z("AuthHashSize", len(crypto.Hash{}), "crypto/hash.go")
	Z("AuthKeySize", len(crypto.Key{}), "crypto/key.go")
	Z("AuthSignatureSize", len(crypto.Signature{}), "crypto/signature.go")
	Z("AuthHandshakeTimeoutSec", int64(p2p.HandshakeTimeout/time.Second), "p2p/quic.go")

	// ---- C32 ----
	// group order l = (-1 mod l) + 1, from the scalar arithmetic of the library
	one := make([]byte, 32)
	one[0] = 1
	s1, err := edwards25519.NewScalar().SetCanonicalBytes(one)
	if err != nil {
		panic(err)
	}
	m1 := edwards25519.NewScalar().Negate(s1).Bytes() // little endian l-1
	be := make([]byte, 32)
	for i := range m1 {
		be[31-i] = m1[i]
	}
	Z("GhostGroupOrder", new(big.Int).Add(new(big.Int).SetBytes(be), big.NewInt(1)), "filippo.io/edwards25519 (scalar field order, -1+1)")

	// base58 alphabet: digit d is the single character Encode prints for the byte d
	alpha := make([]byte, 58)
	alpha[0] = base58.Encode([]byte{0})[0]
	for d := 1; d < 58; d++ {
		e := base58.Encode([]byte{byte(d)})
		if len(e) != 1 {
			panic("base58 alphabet probe")
		}
		alpha[d] = e[0]
	}
	B("B58Alphabet", alpha, "util/base58/alphabet.go (via Encode of single bytes)")
	B("AddrPrefix", []byte(common.MainAddressPrefix), "common/address.go")
	// payload size and checksum width read off a printed address
	payload := base58.Decode(signer.String()[len(common.MainAddressPrefix):])
	Z("AddrPayloadSize", len(payload), "common/address.go (decoded length of a printed address)")
	Z("AddrChecksumSize", len(payload)-2*len(crypto.Key{}), "common/address.go")
	Z("CosiMaskHexSize", len(crypto.CosiSignature{}.String())-2*len(crypto.Signature{}), "crypto/cosi.go (String)")
}
