package main

import (
	"github.com/MixinNetwork/mixin/config"
)

// Constants of the membership history model (coq/Model/NodeState.v, C27) and
// of the topology model (coq/Model/Topology.v, C35).
func init() {
	Z("NodePledgePeriodMinimum", int64(config.KernelNodePledgePeriodMinimum), "config/reader.go (KernelNodePledgePeriodMinimum, ns)")
	Z("NodeAcceptPeriodMinimum", int64(config.KernelNodeAcceptPeriodMinimum), "config/reader.go (KernelNodeAcceptPeriodMinimum, ns)")
	dbg := 0
	if config.Debug {
		dbg = 1
	}
	Z("TopoConfigDebug", dbg, "config/reader.go (Debug: WriteSnapshot duplicate assertion is live)")
}
