package main

import (
	"fmt"
	"math/big"
	"os"

	"github.com/MixinNetwork/mixin/common"
	"github.com/MixinNetwork/mixin/config"
	"verifharness/c03lib"
)

// Constants of the lock / ghost key models (C03, C04).
func init() {
	exc, err := c03lib.GhostExceptions()
	if err != nil {
		fmt.Fprintln(os.Stderr, "ghost exceptions:", err)
		os.Exit(1)
	}
	// the model names three; fewer are padded with 0 (never a transaction hash
	// that reaches the exception test: a zero binding is refused earlier),
	// more make GhostExceptionCount differ from 3, which Props/C04.v pins.
	for i := 0; i < 3; i++ {
		b := make([]byte, 32)
		if i < len(exc) {
			b = exc[i]
		}
		H(fmt.Sprintf("GhostException%d", i+1), b, "storage/badger_utxo.go lockGhostKey")
	}
	s := "["
	for i, b := range exc {
		if i > 0 {
			s += ";"
		}
		s += new(big.Int).SetBytes(b).String()
	}
	s += "]%N"
	if len(exc) == 0 {
		s = "(@nil N)"
	}
	entries = append(entries, entry{"GhostExceptionList", "list N", s, "storage/badger_utxo.go lockGhostKey"})
	Z("GhostExceptionCount", len(exc), "storage/badger_utxo.go lockGhostKey")
	dbg := 0
	if config.Debug {
		dbg = 1
	}
	Z("StorageDebugAsserts", dbg, "config/reader.go Debug")
	Z("LockInputIndexLimit", common.InputIndexLimit, "common/transaction.go InputIndexLimit")
	Z("LockSliceCountLimit", common.SliceCountLimit, "common/transaction.go SliceCountLimit")
}
