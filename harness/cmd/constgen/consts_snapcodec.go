package main

import (
	"github.com/MixinNetwork/mixin/common"
	"github.com/MixinNetwork/mixin/crypto"
)

// Constants of the snapshot codec model (coq/Model/SnapCodec.v).  The two
// magic bytes are an unexported variable of package common; they are read off
// the exported minimum encoder, which writes `magic` first.
func init() {
	Z("SnapVersionCommonEncoding", common.SnapshotVersionCommonEncoding, "common/snapshot.go")
	Z("SnapTransactionsMaximum", common.SnapshotTransactionsMaximum, "common/snapshot.go")
	Z("SnapMaximumEncodingInt", common.MaximumEncodingInt, "common/encoding.go")
	Z("SnapHashSize", len(crypto.Hash{}), "crypto/hash.go")
	Z("SnapSignatureSize", len(crypto.Signature{}), "crypto/signature.go")
	B("SnapMagic", common.NewMinimumEncoder().Bytes()[:2], "common/encoding.go (magic)")
}
