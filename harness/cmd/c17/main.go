// C17 harness: random finalized histories over several assets on a real Badger
// store.  A history starts from LoadGenesis (XIN allocations, a node, the
// custodian).  EVERY later transaction - deposits and withdrawal claims signed
// by the custodian, mints, signed transfers, withdrawal submissions, node
// pledges - is admitted only through the repository's own Validate against the
// real store, then LockInputs + WriteTransaction; what Validate refuses is never
// finalized.  Besides the honest shapes the generator presents correctly signed,
// amount-balanced transactions of every kind carrying, at each output index in
// turn, an extra output of every other type code (script, withdrawal submit /
// claim, node pledge / accept / remove / cancel, custodian update / slash, an
// unknown code).  Batches are finalized with WriteSnapshot, sometimes presenting
// already finalized members again.  Oracle (property text): after every
// snapshot, for every asset, ReadAssetWithBalance = genesis + finalized deposits
// + finalized mints - finalized withdrawal submissions = sum of the output
// records whose lock holder has no finalization record; 0 <= total <= capacity.
package main

import (
	"bytes"
	"encoding/hex"
	"fmt"
	"math/big"
	"sort"
	"strings"

	"github.com/MixinNetwork/mixin/common"
	"github.com/MixinNetwork/mixin/crypto"
	"verifharness/cmd/c15/fin"
	"verifharness/vh"
)

type Case struct {
	Ops []fin.OpSpec `json:"ops"`
}

var e8 = big.NewInt(100000000)

func hexH(h crypto.Hash) string { return hex.EncodeToString(h[:]) }

// ---- oracle -------------------------------------------------------------------------

type supply struct{ total, unconsumed, flow *big.Int }

// observe computes, from the dump and the public read API only, the three
// quantities of the property for every asset that has a record.
func observe(st *fin.Store) (map[crypto.Hash]*supply, []crypto.Hash, []string) {
	d := st.Dump()
	var unreadable []string // finalized outputs that do not read back as themselves, malformed records
	res := map[crypto.Hash]*supply{}
	var order []crypto.Hash
	get := func(a crypto.Hash) *supply {
		if res[a] == nil {
			res[a] = &supply{new(big.Int), new(big.Int), new(big.Int)}
			order = append(order, a)
		}
		return res[a]
	}
	final := map[crypto.Hash]bool{}
	for _, e := range d.Entries {
		if e.Family == "FINALIZATION" {
			final[crypto.Hash(e.Key[len("FINALIZATION"):])] = true
		}
	}
	for _, e := range d.Entries {
		if strings.HasPrefix(e.Family, "MALFORMED") {
			unreadable = append(unreadable, fmt.Sprintf("%s %x", e.Family, e.Key))
		}
		switch e.Family {
		case "ASSETINFO", "ASSETTOTAL":
			get(crypto.Hash(e.Key[len(e.Family):]))
		case "UTXO":
			u, err := common.UnmarshalUTXO(e.Value)
			if err != nil {
				panic(err)
			}
			s := get(u.Asset)
			if !u.LockHash.HasValue() || !final[u.LockHash] {
				s.unconsumed.Add(s.unconsumed, fin.Big(u.Amount))
			}
		case "TRANSACTION":
			h := crypto.Hash(e.Key[len("TRANSACTION"):])
			if !final[h] {
				continue
			}
			ver, err := common.UnmarshalVersionedTransaction(e.Value)
			if err != nil {
				panic(err)
			}
			s := get(ver.Asset)
			// every output of a finalized transaction is individually readable, with its own amount
			for _, u := range ver.UnspentOutputs() {
				got, err := st.S.ReadUTXOLock(u.Hash, u.Index)
				if err != nil || got == nil || got.Amount.Cmp(u.Amount) != 0 || got.Asset != ver.Asset ||
					got.Index != u.Index || got.Type != u.Type {
					unreadable = append(unreadable, fmt.Sprintf("%s:%d", h, u.Index))
				}
			}
			switch {
			case len(ver.Inputs[0].Genesis) > 0: // genesis allocation
				for _, o := range ver.Outputs {
					s.flow.Add(s.flow, fin.Big(o.Amount))
				}
			case ver.Inputs[0].Deposit != nil:
				s.flow.Add(s.flow, fin.Big(ver.Inputs[0].Deposit.Amount))
			case ver.Inputs[0].Mint != nil:
				s.flow.Add(s.flow, fin.Big(ver.Inputs[0].Mint.Amount))
			default:
				for _, o := range ver.Outputs {
					if o.Type == common.OutputTypeWithdrawalSubmit {
						s.flow.Sub(s.flow, fin.Big(o.Amount))
					}
				}
			}
		}
	}
	for a, s := range res {
		_, bal, err := st.S.ReadAssetWithBalance(a)
		if err != nil {
			panic(err)
		}
		s.total = fin.Big(bal)
	}
	return res, order, unreadable
}

func checkSupply(c *vh.Ctx, cs Case, st *fin.Store, at string) (map[crypto.Hash]*supply, []crypto.Hash) {
	res, order, unreadable := observe(st)
	if len(unreadable) > 0 {
		c.Fail("output-not-readable", fmt.Sprintf("%s: %d outputs of finalized transactions do not read back with their own index / amount (or their record is malformed), e.g. %s", at, len(unreadable), unreadable[0]), cs)
	}
	for _, a := range order {
		s := res[a]
		if s.total.Cmp(s.flow) != 0 {
			c.Fail("total-differs-from-flow", fmt.Sprintf("%s: asset %s recorded total %s, genesis+deposits+mints-withdrawals = %s", at, a, s.total, s.flow), cs)
		}
		if s.total.Cmp(s.unconsumed) > 0 {
			c.Fail("value-vanished", fmt.Sprintf("%s: asset %s recorded total %s but the outputs not consumed by a finalized transaction sum to %s: an accepted and finalized transaction carried value that is neither an output record nor subtracted", at, a, s.total, s.unconsumed), cs)
		} else if s.total.Cmp(s.unconsumed) != 0 {
			c.Fail("total-differs-from-unconsumed", fmt.Sprintf("%s: asset %s recorded total %s, unconsumed outputs sum to %s", at, a, s.total, s.unconsumed), cs)
		}
		if s.total.Sign() < 0 {
			c.Fail("total-negative", fmt.Sprintf("%s: asset %s total %s", at, a, s.total), cs)
		}
		if s.total.Cmp(fin.Big(common.GetAssetCapacity(a))) > 0 {
			c.Fail("total-above-capacity", fmt.Sprintf("%s: asset %s total %s", at, a, s.total), cs)
		}
	}
	return res, order
}

// ---- session ---------------------------------------------------------------------------

type Session struct {
	c      *vh.Ctx
	st     *fin.Store
	cs     Case
	hops   []string
	nsnap  int
	nfinal int
}

func (se *Session) Do(op fin.OpSpec) string {
	se.cs.Ops = append(se.cs.Ops, op)
	if op.Kind == "validated" {
		class, hops := se.st.ExecValidated(op)
		se.hops = append(se.hops, hops...)
		return class
	}
	class, term := se.st.Exec(op)
	if term != "" {
		se.hops = append(se.hops, vh.App("HOp", term, fin.CoqRes(class)))
	}
	if op.Kind == "snap" || op.Kind == "genesis" {
		se.nsnap++
		if class == "ok" {
			se.nfinal += len(op.Genesis)
			if op.Snap != nil {
				se.nfinal += len(op.Snap.Txs)
			}
		}
		checkSupply(se.c, se.cs, se.st, fmt.Sprintf("after op %d", len(se.cs.Ops)-1))
	}
	return class
}

func (se *Session) Finish(kind string) {
	res, order := checkSupply(se.c, se.cs, se.st, "end")
	var obs []string
	for _, a := range order {
		s := res[a]
		obs = append(obs, vh.App("OAsset", vh.BytesAsN(a[:]), vh.Z(s.total), vh.Z(s.unconsumed), vh.Z(s.flow)))
	}
	term := vh.App("CSupply", vh.List(se.hops, "hop"), vh.List(obs, "obs_asset"))
	key := fmt.Sprintf("%s|%x", kind, crypto.Blake3Hash([]byte(term)))
	se.c.Case(kind, key, se.nfinal >= 3 && len(order) >= 1, se.cs, term)
	se.st.Close()
}

// ---- generator ----------------------------------------------------------------------------

type out struct {
	hash  string
	index uint
	amt   *big.Int
	owner int // account index, -1 when not spendable by signature
}

type ptx struct {
	spec fin.TxSpec
	hash string
	node string // the node whose snapshot finalized it
}

// abstract shape of one output before keys are derived
type shapeOut struct {
	typ uint8
	amt *big.Int
}

// a transaction before its outputs are materialized
type draft struct {
	kind   string
	asset  string
	inputs []fin.InSpec
	taken  []out
	shape  []shapeOut
	extra  string
	refs   []string
	sign   []string
}

var typeCodes = []uint8{common.OutputTypeScript, common.OutputTypeWithdrawalSubmit, common.OutputTypeNodePledge,
	common.OutputTypeNodeAccept, common.OutputTypeNodeRemove, common.OutputTypeWithdrawalClaim, common.OutputTypeNodeCancel,
	common.OutputTypeCustodianUpdateNodes, common.OutputTypeCustodianSlashNodes, 0x77}

type Gen struct {
	se       *Session
	r        *vh.Rand
	seeds    []string
	custSeed string
	assets   []string
	known    map[string]bool
	avail    map[string][]out
	pending  []*ptx
	done     []*ptx
	nodes    []string
	refs     map[string][2]string
	topo     uint64
	ts       uint64
	depN     int
	mintN    uint64
	submits  []string
	pledged  bool
}

func units(v *big.Int) string { return v.String() }

func (g *Gen) amount(maxWhole int) *big.Int {
	v := big.NewInt(int64(g.r.Range(1, maxWhole)))
	v.Mul(v, e8)
	if g.r.Chance(1, 3) {
		v.Add(v, big.NewInt(int64(g.r.Intn(100000000))))
	}
	return v
}

// an output of type typ to account `owner`, with real ghost keys (fresh randomness every time)
func (g *Gen) ownedOut(owner int, typ uint8, amt *big.Int, index int) fin.OutSpec {
	acc := fin.Account(g.seeds[owner])
	seed := g.r.Bytes(64)
	tmp := common.NewTransactionV5(common.XINAssetId)
	for i := 0; i < index; i++ { // the ghost key derivation depends on the output index
		tmp.Outputs = append(tmp.Outputs, &common.Output{})
	}
	tmp.AddScriptOutput([]*common.Address{acc}, common.NewThresholdScript(1), common.VerifIntegerFromBig(amt), seed)
	o := tmp.Outputs[index]
	spec := fin.OutSpec{Type: typ, Amount: units(amt), Script: hex.EncodeToString(o.Script), Mask: hex.EncodeToString(o.Mask[:])}
	for _, k := range o.Keys {
		spec.Keys = append(spec.Keys, hex.EncodeToString(k[:]))
	}
	return spec
}

// materialize derives fresh keys for every output of the shape
func (g *Gen) materialize(d draft) fin.TxSpec {
	spec := fin.TxSpec{Asset: d.asset, Inputs: d.inputs, Extra: d.extra, Refs: d.refs, Sign: d.sign}
	for i, so := range d.shape {
		switch so.typ {
		case common.OutputTypeWithdrawalSubmit, common.OutputTypeWithdrawalClaim, common.OutputTypeNodePledge,
			common.OutputTypeNodeCancel, common.OutputTypeNodeAccept:
			// kernel outputs carry no keys, script or mask (anything else is refused on sight)
			spec.Outputs = append(spec.Outputs, fin.OutSpec{Type: so.typ, Amount: units(so.amt)})
		default:
			spec.Outputs = append(spec.Outputs, g.ownedOut(g.r.Intn(3), so.typ, so.amt, i))
		}
	}
	return spec
}

// withExtra inserts an output of type typ at index at; its value is taken from the largest other output
func withExtra(d draft, typ uint8, at int) (draft, bool) {
	donor := -1
	for i, so := range d.shape {
		if so.amt.Cmp(big.NewInt(20000)) >= 0 && (donor < 0 || so.amt.Cmp(d.shape[donor].amt) > 0) {
			donor = i
		}
	}
	if donor < 0 {
		return d, false
	}
	x := new(big.Int).Div(d.shape[donor].amt, big.NewInt(3))
	var shape []shapeOut
	for i, so := range d.shape {
		if i == at {
			shape = append(shape, shapeOut{typ, x})
		}
		if i == donor {
			so = shapeOut{so.typ, new(big.Int).Sub(so.amt, x)}
		}
		shape = append(shape, so)
	}
	if at >= len(d.shape) {
		shape = append(shape, shapeOut{typ, x})
	}
	d.shape = shape
	d.kind = fmt.Sprintf("%s+%02x@%d", d.kind, typ, at)
	return d, true
}

func (g *Gen) custodianExtra() string {
	cur := fin.Account(g.custSeed)
	network := crypto.Blake3Hash([]byte("verif-network"))
	var nodes [][]byte
	for i := 0; i < 7; i++ {
		c, p, s := fin.Account(hex.EncodeToString(g.r.Bytes(64))), fin.Account(hex.EncodeToString(g.r.Bytes(64))), fin.Account(hex.EncodeToString(g.r.Bytes(64)))
		nodes = append(nodes, common.EncodeCustodianNode(c, p, &s.PrivateSpendKey, &p.PrivateSpendKey, &c.PrivateSpendKey, network))
	}
	sort.Slice(nodes, func(i, j int) bool { return bytes.Compare(nodes[i][1:33], nodes[j][1:33]) < 0 })
	extra := append(append([]byte{}, cur.PublicSpendKey[:]...), cur.PublicViewKey[:]...)
	for _, n := range nodes {
		extra = append(extra, n...)
	}
	sig := cur.PrivateSpendKey.Sign(crypto.Blake3Hash(extra))
	return hex.EncodeToString(append(extra, sig[:]...))
}

func newGen(se *Session, r *vh.Rand) *Gen {
	g := &Gen{se: se, r: r, known: map[string]bool{}, avail: map[string][]out{}, refs: map[string][2]string{}, ts: 1_700_000_000_000_000_000}
	for i := 0; i < 3; i++ {
		g.seeds = append(g.seeds, hex.EncodeToString(r.Bytes(64)))
	}
	g.custSeed = hex.EncodeToString(r.Bytes(64))
	xin := hexH(common.XINAssetId)
	g.assets = []string{xin, hexH(common.BitcoinAssetId), hexH(common.EthereumAssetId), hexH(crypto.Blake3Hash(r.Bytes(8)))}
	// genesis: XIN allocations, a node accept, and the custodian (LoadGenesis wants a consensus transaction last)
	var gen []fin.GenEntry
	n := r.Range(2, 4)
	for i := 0; i <= n+1; i++ {
		spec := fin.TxSpec{Asset: xin, Inputs: []fin.InSpec{{Kind: "genesis", TxID: fmt.Sprintf("genesis-%d", i)}}}
		switch {
		case i < n:
			for j, m := 0, r.Range(1, 3); j < m; j++ {
				spec.Outputs = append(spec.Outputs, g.ownedOut(r.Intn(3), common.OutputTypeScript, g.amount(20000), j))
			}
		case i == n:
			spec.Outputs = []fin.OutSpec{{Type: common.OutputTypeNodeAccept, Amount: units(new(big.Int).Mul(big.NewInt(13439), e8))}}
			spec.Extra = hex.EncodeToString(r.Bytes(64))
		default:
			spec.Outputs = []fin.OutSpec{g.ownedOut(0, common.OutputTypeCustodianUpdateNodes, new(big.Int).Mul(big.NewInt(100), e8), 0)}
			spec.Extra = g.custodianExtra()
		}
		h := hexH(spec.Build().PayloadHash())
		node := hexH(crypto.Blake3Hash(r.Bytes(16)))
		gen = append(gen, fin.GenEntry{Tx: spec, Snap: fin.SnapSpec{Node: node, Round: 0, TS: g.ts + uint64(i), Txs: []string{h}, Topo: uint64(i)}})
		g.done = append(g.done, &ptx{spec, h, node})
		g.track(spec, h)
	}
	g.topo = uint64(n + 1)
	g.ts += 10
	if se.Do(fin.OpSpec{Kind: "genesis", Genesis: gen}) != "ok" {
		panic("genesis refused")
	}
	g.known[xin] = true
	nn := r.Range(2, 3)
	for i := 0; i < nn; i++ {
		node := hexH(crypto.Blake3Hash(r.Bytes(16)))
		g.nodes = append(g.nodes, node)
		se.Do(fin.OpSpec{Kind: "round", Node: node})
	}
	for i := 0; i < nn-1; i++ { // the last node stays in round 0 (it is the external reference of the others)
		rs, re := hexH(crypto.Blake3Hash(r.Bytes(16))), g.nodes[(i+1)%nn]
		g.refs[g.nodes[i]] = [2]string{rs, re}
		se.Do(fin.OpSpec{Kind: "round", Node: g.nodes[i], Round: 1, RefSelf: rs, RefExt: re})
	}
	return g
}

func keyPtr(k crypto.Key) *crypto.Key { return &k }

func (g *Gen) ownerOf(spec fin.TxSpec, i int) int {
	o := spec.Outputs[i]
	if len(o.Keys) != 1 || o.Mask == "" {
		return -1
	}
	for ai, sd := range g.seeds {
		acc := fin.Account(sd)
		mask := fin.K(o.Mask)
		k := crypto.ViewGhostOutputKey(keyPtr(fin.K(o.Keys[0])), &acc.PrivateViewKey, &mask, uint64(i))
		if *k == acc.PublicSpendKey {
			return ai
		}
	}
	return -1
}

// track records the spendable outputs of a transaction that is (about to be) finalized
func (g *Gen) track(spec fin.TxSpec, h string) {
	for i, o := range spec.Outputs {
		if o.Type != common.OutputTypeScript {
			continue
		}
		amt, _ := new(big.Int).SetString(o.Amount, 10)
		g.avail[spec.Asset] = append(g.avail[spec.Asset], out{h, uint(i), amt, g.ownerOf(spec, i)})
	}
}

func (g *Gen) take(asset string, owner int) (out, bool) {
	l := g.avail[asset]
	for tries := 0; tries < 8 && len(l) > 0; tries++ {
		i := g.r.Intn(len(l))
		if l[i].owner < 0 || (owner >= 0 && l[i].owner != owner) {
			continue
		}
		o := l[i]
		g.avail[asset] = append(l[:i:i], l[i+1:]...)
		return o, true
	}
	return out{}, false
}

func (g *Gen) giveBack(d draft) {
	g.avail[d.asset] = append(g.avail[d.asset], d.taken...)
}

// spendDraft: inputs of one owner (one when single), first output of type ft, change to random accounts
func (g *Gen) spendDraft(kind, asset string, ft uint8, single bool) (draft, bool) {
	first, ok := g.take(asset, -1)
	if !ok {
		return draft{}, false
	}
	d := draft{kind: kind, asset: asset, sign: []string{g.seeds[first.owner]}, taken: []out{first}}
	sum := new(big.Int).Set(first.amt)
	d.inputs = append(d.inputs, fin.InSpec{Kind: "ord", Hash: first.hash, Index: first.index})
	if !single && g.r.Bool() {
		if o, ok := g.take(asset, first.owner); ok {
			d.inputs = append(d.inputs, fin.InSpec{Kind: "ord", Hash: o.hash, Index: o.index})
			d.taken = append(d.taken, o)
			sum.Add(sum, o.amt)
		}
	}
	if single {
		d.shape = []shapeOut{{ft, sum}}
		return d, true
	}
	head := new(big.Int).Set(sum)
	if sum.Cmp(big.NewInt(40000)) >= 0 && (ft != common.OutputTypeScript || g.r.Chance(3, 4)) {
		head.Div(sum, big.NewInt(int64(g.r.Range(2, 4))))
	}
	d.shape = append(d.shape, shapeOut{ft, head})
	rest := new(big.Int).Sub(sum, head)
	if rest.Cmp(big.NewInt(2)) >= 0 && g.r.Bool() {
		half := new(big.Int).Div(rest, big.NewInt(2))
		d.shape = append(d.shape, shapeOut{common.OutputTypeScript, half})
		rest.Sub(rest, half)
	}
	if rest.Sign() > 0 {
		d.shape = append(d.shape, shapeOut{common.OutputTypeScript, rest})
	}
	return d, true
}

func (g *Gen) room(asset string) *big.Int {
	a := fin.H(asset)
	_, bal, err := g.se.st.S.ReadAssetWithBalance(a)
	if err != nil {
		panic(err)
	}
	room := new(big.Int).Sub(fin.Big(common.GetAssetCapacity(a)), fin.Big(bal))
	for _, p := range g.pending { // leave space for the other pending deposits / mints of this asset
		if p.spec.Asset == asset && (p.spec.Inputs[0].Kind == "deposit" || p.spec.Inputs[0].Kind == "mint") {
			amt, _ := new(big.Int).SetString(p.spec.Inputs[0].Amount, 10)
			room.Sub(room, amt)
		}
	}
	return room
}

// honest drafts of every kind -------------------------------------------------------------------

func (g *Gen) depositDraft(asset string) (draft, bool) {
	amt := g.amount(60)
	room := g.room(asset)
	if room.Cmp(big.NewInt(100000)) < 0 {
		return draft{}, false
	}
	if amt.Cmp(room) >= 0 {
		amt.Sub(room, big.NewInt(1)) // right below the capacity
	}
	g.depN++
	akey := "0xkey" + asset[:6]
	if asset == g.assets[0] {
		akey = common.XINAsset.AssetKey
	}
	return draft{kind: "deposit", asset: asset, sign: []string{g.custSeed},
		inputs: []fin.InSpec{{Kind: "deposit", Chain: hexH(common.EthereumAssetId), AKey: akey, TxID: fmt.Sprintf("0xdep%d", g.depN), DIndex: uint64(g.depN), Amount: units(amt)}},
		shape:  []shapeOut{{common.OutputTypeScript, amt}}}, true
}

func (g *Gen) mintDraft() (draft, bool) {
	asset := g.assets[0]
	amt := g.amount(30)
	if amt.Cmp(g.room(asset)) >= 0 {
		return draft{}, false
	}
	g.mintN++
	half := new(big.Int).Div(amt, big.NewInt(2))
	return draft{kind: "mint", asset: asset, sign: []string{g.seeds[0]},
		inputs: []fin.InSpec{{Kind: "mint", Batch: g.mintN, Amount: units(amt)}},
		shape:  []shapeOut{{common.OutputTypeScript, half}, {common.OutputTypeScript, new(big.Int).Sub(amt, half)}}}, true
}

func (g *Gen) claimDraft() (draft, bool) {
	if len(g.submits) == 0 {
		return draft{}, false
	}
	d, ok := g.spendDraft("claim", g.assets[0], common.OutputTypeWithdrawalClaim, false)
	if !ok {
		return d, false
	}
	payload := g.r.Bytes(g.r.Range(1, 30))
	sig := fin.Account(g.custSeed).PrivateSpendKey.Sign(crypto.Blake3Hash(payload))
	d.extra = hex.EncodeToString(append(sig[:], payload...))
	d.refs = []string{g.submits[g.r.Intn(len(g.submits))]}
	return d, true
}

func (g *Gen) pledgeDraft() (draft, bool) {
	d, ok := g.spendDraft("pledge", g.assets[0], common.OutputTypeNodePledge, true)
	if !ok {
		return d, false
	}
	signer, payee := fin.Account(hex.EncodeToString(g.r.Bytes(64))), fin.Account(hex.EncodeToString(g.r.Bytes(64)))
	d.extra = hex.EncodeToString(append(append([]byte{}, signer.PublicSpendKey[:]...), payee.PublicSpendKey[:]...))
	return d, true
}

func (g *Gen) honestDraft(kind string) (draft, bool) {
	asset := g.assets[g.r.Intn(len(g.assets))]
	switch kind {
	case "deposit":
		return g.depositDraft(asset)
	case "mint":
		return g.mintDraft()
	case "transfer":
		return g.spendDraft("transfer", asset, common.OutputTypeScript, false)
	case "submit":
		return g.spendDraft("submit", asset, common.OutputTypeWithdrawalSubmit, false)
	case "claim":
		return g.claimDraft()
	case "pledge":
		return g.pledgeDraft()
	}
	panic(kind)
}

// admit presents the transaction to Validate; true when it is now written and pending
func (g *Gen) admit(d draft) *ptx {
	spec := g.materialize(d)
	g.se.c.Count("presented:" + d.kind[:min(len(d.kind), 40)])
	if g.se.Do(fin.OpSpec{Kind: "validated", Tx: &spec, TS: g.ts}) != "ok" {
		g.giveBack(d)
		return nil
	}
	p := &ptx{spec, hexH(spec.Build().PayloadHash()), ""}
	g.pending = append(g.pending, p)
	if d.asset != "" && len(d.inputs) > 0 && d.inputs[0].Kind == "deposit" {
		g.known[d.asset] = true
	}
	return p
}

var kinds = []string{"deposit", "deposit", "mint", "transfer", "transfer", "transfer", "transfer", "submit", "submit", "claim", "pledge"}

func (g *Gen) newTx() {
	kind := kinds[g.r.Intn(len(kinds))]
	if kind == "pledge" && g.pledged {
		return
	}
	d, ok := g.honestDraft(kind)
	if !ok {
		if d2, ok2 := g.depositDraft(g.assets[g.r.Intn(len(g.assets))]); ok2 { // nothing spendable: fund
			g.admit(d2)
		}
		return
	}
	if g.r.Chance(1, 12) { // an unbalanced or foreign-signed attempt: Validate must refuse
		if g.r.Bool() {
			d.shape[0].amt = new(big.Int).Add(d.shape[0].amt, big.NewInt(int64(g.r.Range(1, 1000))))
		} else {
			d.sign = []string{hex.EncodeToString(g.r.Bytes(64))}
		}
		d.kind = "invalid-" + d.kind
		if g.admit(d) != nil && len(d.inputs) > 0 && d.inputs[0].Kind == "ord" {
			g.se.c.Fail("invalid-admitted", "Validate admitted a transaction that creates value or is not signed by the owner", g.se.cs)
		}
		return
	}
	if p := g.admit(d); p == nil {
		panic("honest " + kind + " refused by Validate")
	} else if kind == "pledge" {
		g.pledged = true
	}
}

// hostile presents an honest draft with an extra output of type typ at index at; an accepted one is
// finalized alone at once so that the oracle sees its effect (or its finalization fails)
func (g *Gen) hostile(kind string, typ uint8, at int) {
	if kind == "pledge" && g.pledged {
		return
	}
	d, ok := g.honestDraft(kind)
	for tries := 0; !ok && tries < 3; tries++ {
		// nothing spendable (earlier accepted shapes consumed it): fund with a finalized deposit
		asset := g.assets[0]
		if kind == "transfer" || kind == "submit" {
			asset = g.assets[g.r.Intn(len(g.assets))]
		}
		if fd, fok := g.depositDraft(asset); fok {
			if p := g.admit(fd); p != nil {
				g.finalize([]*ptx{p}, nil)
			}
		}
		d, ok = g.honestDraft(kind)
	}
	if !ok {
		g.se.c.Count("hostile-not-presented")
		return
	}
	d, ok = withExtra(d, typ, at)
	if !ok {
		g.giveBack(d)
		return
	}
	p := g.admit(d)
	if p == nil {
		g.se.c.Count("hostile-refused")
		return
	}
	g.se.c.Count("hostile-accepted")
	g.se.c.Count("accepted:" + d.kind)
	if kind == "pledge" {
		g.pledged = true
	}
	g.finalize([]*ptx{p}, nil)
}

func (g *Gen) finalize(batch []*ptx, overlap []string) string {
	var txs []string
	for _, p := range batch {
		txs = append(txs, p.hash)
	}
	txs = append(txs, overlap...)
	node := g.nodes[g.r.Intn(len(g.nodes)-1)]
	g.topo++
	g.ts += uint64(g.r.Range(1, 1000)) * 1_000_000
	rf := g.refs[node]
	sp := &fin.SnapSpec{Node: node, Round: 1, RefSelf: rf[0], RefExt: rf[1], TS: g.ts, Txs: txs, Topo: g.topo}
	class := g.se.Do(fin.OpSpec{Kind: "snap", Snap: sp})
	in := map[string]bool{}
	for _, p := range batch {
		in[p.hash] = true
	}
	var rest []*ptx
	for _, p := range g.pending {
		if !in[p.hash] {
			rest = append(rest, p)
			continue
		}
		if class != "ok" {
			if len(batch) > 1 {
				rest = append(rest, p) // stays pending, retried later
			}
			continue // a lone member that cannot be finalized is dropped
		}
		p.node = node
		g.done = append(g.done, p)
		g.track(p.spec, p.hash)
		if p.spec.Outputs[0].Type == common.OutputTypeWithdrawalSubmit {
			g.submits = append(g.submits, p.hash)
		}
	}
	g.pending = rest
	if class != "ok" {
		g.se.c.Count("snapshot-" + class)
	}
	return class
}

// ---- capacity: totals driven up to and across the capacity by accumulation -----------------------

func whole(n int64) *big.Int { return new(big.Int).Mul(big.NewInt(n), e8) }

func (g *Gen) depositOf(asset string, amt *big.Int) draft {
	g.depN++
	akey := "0xkey" + asset[:6]
	if asset == g.assets[0] {
		akey = common.XINAsset.AssetKey
	}
	return draft{kind: "deposit", asset: asset, sign: []string{g.custSeed},
		inputs: []fin.InSpec{{Kind: "deposit", Chain: hexH(common.EthereumAssetId), AKey: akey, TxID: fmt.Sprintf("0xdep%d", g.depN), DIndex: uint64(g.depN), Amount: units(amt)}},
		shape:  []shapeOut{{common.OutputTypeScript, amt}}}
}

func (g *Gen) mintOf(amt *big.Int) draft {
	g.mintN++
	return draft{kind: "mint", asset: g.assets[0], sign: []string{g.seeds[0]},
		inputs: []fin.InSpec{{Kind: "mint", Batch: g.mintN, Amount: units(amt)}},
		shape:  []shapeOut{{common.OutputTypeScript, amt}}}
}

// admitAll validates every draft against the CURRENT recorded total (none is finalized in between)
func (g *Gen) admitAll(ds []draft) []*ptx {
	var ps []*ptx
	for _, d := range ds {
		if p := g.admit(d); p != nil {
			ps = append(ps, p)
		} else {
			g.se.c.Count("capacity:refused-by-validate")
		}
	}
	return ps
}

// together: one snapshot for all; then one by one (the crossing one panics, the rest is counted once)
func (g *Gen) crossTogether(ps []*ptx, label string) {
	if len(ps) > 1 {
		g.se.c.Count("capacity:" + label + ":one-snapshot:" + g.finalize(ps, nil))
	}
	g.crossOneByOne(ps, label)
}

func (g *Gen) crossOneByOne(ps []*ptx, label string) {
	for _, p := range ps {
		still := false
		for _, q := range g.pending {
			still = still || q == p
		}
		if still {
			g.se.c.Count("capacity:" + label + ":consecutive:" + g.finalize([]*ptx{p}, nil))
		}
	}
}

func capacityHistory(c *vh.Ctx, r *vh.Rand, mode int) {
	se := &Session{c: c, st: fin.OpenStore()}
	g := newGen(se, r)
	btc, eth, sol := hexH(common.BitcoinAssetId), hexH(common.EthereumAssetId), hexH(common.SOLAssetId)
	j := func(n int64) *big.Int { return new(big.Int).Add(whole(n), big.NewInt(int64(r.Intn(1000)))) }
	switch mode {
	case 0:
		// first-ever deposits of an unrecorded asset (no recorded total to validate against), jointly above 2500 BTC
		g.crossTogether(g.admitAll([]draft{g.depositOf(btc, j(1400)), g.depositOf(btc, j(1300))}), "first-ever")
		// recorded asset: three deposits each below the remaining room, crossing together and then one by one
		g.crossTogether(g.admitAll([]draft{g.depositOf(btc, j(400)), g.depositOf(btc, j(500)), g.depositOf(btc, j(450))}), "recorded")
		// consecutive snapshots on ETH (5000)
		g.crossOneByOne(g.admitAll([]draft{g.depositOf(eth, j(1000))}), "eth-base")
		g.crossOneByOne(g.admitAll([]draft{g.depositOf(eth, j(1500)), g.depositOf(eth, j(1600)), g.depositOf(eth, j(1700))}), "eth")
		// a single first-ever deposit above the capacity of SOL (60000), then one exactly at the capacity, then one more unit
		g.crossOneByOne(g.admitAll([]draft{g.depositOf(sol, j(60001))}), "first-ever-single")
		g.crossOneByOne(g.admitAll([]draft{g.depositOf(sol, whole(60000))}), "exactly-capacity")
		g.crossOneByOne(g.admitAll([]draft{g.depositOf(sol, big.NewInt(1))}), "above-exact")
	case 1:
		// mints crossing the XIN capacity (750000) on top of the genesis allocation
		var ds []draft
		for i := 0; i < 4; i++ {
			ds = append(ds, g.mintOf(j(230000)))
		}
		ps := g.admitAll(ds)
		g.crossOneByOne(ps[:len(ps)/2], "mints")
		g.crossTogether(ps[len(ps)/2:], "mints")
	default:
		// genesis + deposits of XIN, validated up front, crossing 750000
		g.crossTogether(g.admitAll([]draft{g.depositOf(g.assets[0], j(300000)), g.depositOf(g.assets[0], j(280000)), g.depositOf(g.assets[0], j(260000))}), "genesis+deposits")
		// and the ledger keeps working afterwards
		g.snapshot(3)
	}
	g.snapshot(2)
	se.Finish(fmt.Sprintf("capacity-%d", mode))
}

// ---- wide transactions: up to the 256 outputs the protocol allows ---------------------------------

func (g *Gen) takeExact(asset, hash string, index uint) (out, bool) {
	l := g.avail[asset]
	for i, o := range l {
		if o.hash == hash && o.index == index && o.owner >= 0 {
			g.avail[asset] = append(l[:i:i], l[i+1:]...)
			return o, true
		}
	}
	return out{}, false
}

func (g *Gen) takeLargest(asset string) (out, bool) {
	best := -1
	for i, o := range g.avail[asset] {
		if o.owner >= 0 && (best < 0 || o.amt.Cmp(g.avail[asset][best].amt) > 0) {
			best = i
		}
	}
	if best < 0 {
		return out{}, false
	}
	o := g.avail[asset][best]
	g.avail[asset] = append(g.avail[asset][:best:best], g.avail[asset][best+1:]...)
	return o, true
}

// a transfer (or mint) with n script outputs of pairwise distinct amounts
func wideShape(sum *big.Int, n int) []shapeOut {
	base := new(big.Int).Sub(sum, big.NewInt(int64(n*(n-1)/2)))
	q, rem := new(big.Int).DivMod(base, big.NewInt(int64(n)), new(big.Int))
	var shape []shapeOut
	for i := 0; i < n; i++ {
		a := new(big.Int).Add(q, big.NewInt(int64(i)))
		if i == n-1 {
			a.Add(a, rem) // the largest: funds the next wide transaction
		}
		shape = append(shape, shapeOut{common.OutputTypeScript, a})
	}
	return shape
}

func wideHistory(c *vh.Ctx, r *vh.Rand, widths []int, mintWidth int, label string) {
	se := &Session{c: c, st: fin.OpenStore()}
	g := newGen(se, r)
	asset := g.assets[3]
	if p := g.admit(g.depositOf(asset, whole(900000))); p != nil {
		g.finalize([]*ptx{p}, nil)
	}
	for _, n := range widths {
		src, ok := g.takeLargest(asset)
		if !ok {
			break
		}
		d := draft{kind: fmt.Sprintf("wide-%d", n), asset: asset, sign: []string{g.seeds[src.owner]}, taken: []out{src},
			inputs: []fin.InSpec{{Kind: "ord", Hash: src.hash, Index: src.index}}, shape: wideShape(src.amt, n)}
		p := g.admit(d)
		if p == nil {
			g.se.c.Count("wide-refused")
			continue
		}
		g.se.c.Count("wide:" + g.finalize([]*ptx{p}, nil))
		// spend outputs at high indexes (both members of every aliasing-prone pair 128+k / 192+k, the boundaries)
		var batch []*ptx
		for _, idx := range []int{63, 64, 127, 128, 129, 191, 192, 193, 128 + r.Intn(64), 192 + r.Intn(64), n - 2} {
			if idx < 0 || idx >= n-1 {
				continue
			}
			o, ok := g.takeExact(asset, p.hash, uint(idx))
			if !ok {
				continue
			}
			half := new(big.Int).Div(o.amt, big.NewInt(2))
			sd := draft{kind: "spend-high-index", asset: asset, sign: []string{g.seeds[o.owner]}, taken: []out{o},
				inputs: []fin.InSpec{{Kind: "ord", Hash: o.hash, Index: o.index}},
				shape:  []shapeOut{{common.OutputTypeScript, half}, {common.OutputTypeScript, new(big.Int).Sub(o.amt, half)}}}
			if sp := g.admit(sd); sp != nil {
				batch = append(batch, sp)
			} else {
				g.se.c.Count("spend-high-index-refused")
			}
		}
		if len(batch) > 0 {
			g.se.c.Count("spend-high-index:" + g.finalize(batch, nil))
		}
	}
	if mintWidth > 0 { // a wide mint allocation of XIN
		d := g.mintOf(whole(20000))
		d.kind = fmt.Sprintf("wide-mint-%d", mintWidth)
		d.shape = wideShape(whole(20000), mintWidth)
		if p := g.admit(d); p != nil {
			g.se.c.Count("wide:" + g.finalize([]*ptx{p}, nil))
		}
	}
	g.snapshot(3)
	se.Finish(label)
}

func (g *Gen) snapshot(size int) {
	for tries := 0; len(g.pending) < size && tries < 8*size+10; tries++ {
		g.newTx()
	}
	if len(g.pending) == 0 {
		return
	}
	if size > len(g.pending) {
		size = len(g.pending)
	}
	perm := make([]int, len(g.pending))
	for i := range perm {
		perm[i] = i
	}
	for i := len(perm) - 1; i > 0; i-- {
		j := g.r.Intn(i + 1)
		perm[i], perm[j] = perm[j], perm[i]
	}
	var batch []*ptx
	seen := map[string]bool{}
	for _, i := range perm[:size] {
		batch = append(batch, g.pending[i])
		seen[g.pending[i].hash] = true
	}
	// present members finalized earlier again: they must not count twice
	var overlap []string
	for n := g.r.Intn(3); n > 0 && len(g.done) > 0; n-- {
		d := g.done[g.r.Intn(len(g.done))]
		if !seen[d.hash] && g.r.Chance(2, 3) {
			seen[d.hash] = true
			overlap = append(overlap, d.hash)
		}
	}
	before := len(g.pending)
	g.finalize(batch, overlap)
	if len(g.pending) == before && len(overlap) > 0 {
		g.finalize(batch, nil) // the same node presenting a member twice trips the uniqueness assertion
	}
}

func history(c *vh.Ctx, r *vh.Rand, steps, maxBatch int, kind string) {
	se := &Session{c: c, st: fin.OpenStore()}
	g := newGen(se, r)
	hk := []string{"deposit", "mint", "transfer", "submit", "claim", "pledge"}
	for i := 0; i < steps; i++ {
		g.snapshot(r.Range(1, maxBatch))
		for n := r.Intn(3); n > 0; n-- {
			g.hostile(hk[r.Intn(len(hk))], typeCodes[r.Intn(len(typeCodes))], r.Intn(4))
		}
	}
	se.Finish(kind)
}

// sweep: every kind x every extra output type code x every output index
func sweep(c *vh.Ctx, r *vh.Rand, kinds []string, label string) {
	se := &Session{c: c, st: fin.OpenStore()}
	g := newGen(se, r)
	g.snapshot(6)
	g.snapshot(6) // funds in several assets, a finalized submission for the claims
	for tries := 0; len(g.submits) == 0 && tries < 6; tries++ {
		if d, ok := g.honestDraft("submit"); ok {
			if p := g.admit(d); p != nil {
				g.finalize([]*ptx{p}, nil)
			}
		}
	}
	for _, k := range kinds {
		for _, t := range typeCodes {
			for at := 0; at <= 3; at++ {
				g.hostile(k, t, at)
			}
		}
	}
	g.snapshot(4)
	se.Finish(label)
}

func replay(c *vh.Ctx, cs Case) {
	se := &Session{c: c, st: fin.OpenStore()}
	for _, op := range cs.Ops {
		se.Do(op)
	}
	se.cs = cs
	se.Finish("replay")
}

func main() {
	c := vh.Start("C17")
	c.Rep.Rule = "a case is one finalized history on a fresh Badger store: LoadGenesis (XIN allocations, node, custodian), then custodian-signed deposits and withdrawal claims, mints, signed transfers, withdrawal submissions and node pledges, EVERY one admitted only through Validate + LockInputs + WriteTransaction, finalized by WriteSnapshot in batches (members of earlier snapshots presented again); plus correctly signed, balanced transactions of every kind carrying at each output index an extra output of every type code (accepted ones are finalized at once), and unbalanced / foreign-signed attempts; non-trivial = at least 3 finalized transactions; distinct = digest of the history"
	if c.Replay != "" {
		var cs Case
		c.ReplayCase(&cs)
		replay(c, cs)
		c.Finish()
		return
	}
	// corpus: the full matrix kind x extra output type x index, split over three histories
	sweep(c, c.Rng.Fork("sweep-a"), []string{"submit", "transfer"}, "sweep-submit-transfer")
	sweep(c, c.Rng.Fork("sweep-b"), []string{"claim", "pledge"}, "sweep-claim-pledge")
	sweep(c, c.Rng.Fork("sweep-c"), []string{"deposit", "mint"}, "sweep-deposit-mint")
	// corpus: totals driven up to and across the capacity (deposits in one / consecutive snapshots, first-ever
	// deposits, mints, genesis + deposits); the crossing write must leave the total <= capacity and = flow
	for m := 0; m < 3; m++ {
		capacityHistory(c, c.Rng.Fork(fmt.Sprintf("cap%d", m)), m)
	}
	// corpus: wide transactions (the protocol allows 256 outputs) with pairwise distinct amounts, then spends of
	// high-index outputs; every output must stay individually readable and the scan must match the total
	wideHistory(c, c.Rng.Fork("wide-a"), []int{193, 256}, 0, "wide-193-256")
	wideHistory(c, c.Rng.Fork("wide-b"), []int{129, 255}, 200, "wide-129-255-mint200")
	history(c, c.Rng.Fork("short"), 2, 2, "history-short")
	history(c, c.Rng.Fork("long"), c.Scale(12, 100), 4, "history-long")
	n := c.Scale(4, 200)
	for i := 0; i < c.Scale(0, 30); i++ {
		capacityHistory(c, c.Rng.Fork(fmt.Sprintf("capr%d", i)), i%3)
	}
	for i := 0; i < c.Scale(0, 12); i++ {
		ws := []int{64, 128, 129, 192, 193, 255, 256}
		wideHistory(c, c.Rng.Fork(fmt.Sprintf("wider%d", i)), []int{ws[c.Rng.Intn(len(ws))], c.Rng.Range(60, 256), ws[c.Rng.Intn(len(ws))]}, c.Rng.Range(0, 256), "wide-random")
	}
	for i := 0; i < n; i++ {
		history(c, c.Rng.Fork(fmt.Sprintf("h%d", i)), c.Rng.Range(3, 8), 8, "history")
	}
	c.Finish()
}
