// C17 harness: random finalized histories over several assets on a real Badger
// store.  A history starts from a LoadGenesis allocation of XIN; transfers and
// withdrawal submissions are signed with real keys and admitted through the
// repository's own Validate + LockInputs + WriteTransaction; deposits, mints,
// withdrawal claims and node pledges are valid by construction (their
// validation needs custodian / kernel state outside this property: one input,
// outputs summing to the deposited / minted amount, inputs unspent and of one
// asset).  Batches are finalized with WriteSnapshot, sometimes presenting
// already finalized members again.  Oracle (property text): after every
// snapshot, for every asset, ReadAssetWithBalance = genesis + finalized deposits
// + finalized mints - finalized withdrawal submissions = sum of the output
// records whose lock holder has no finalization record; 0 <= total <= capacity.
package main

import (
	"encoding/hex"
	"fmt"
	"math/big"

	"github.com/MixinNetwork/mixin/common"
	"github.com/MixinNetwork/mixin/crypto"
	"verifharness/cmd/c15/fin"
	"verifharness/vh"
)

type Case struct {
	Ops []fin.OpSpec `json:"ops"`
}

var e8 = big.NewInt(100000000)

func hexH(h crypto.Hash) string { return hex.EncodeToString(h[:]) }

// ---- oracle -------------------------------------------------------------------------

type supply struct{ total, unconsumed, flow *big.Int }

// observe computes, from the dump and the public read API only, the three
// quantities of the property for every asset that has a record.
func observe(st *fin.Store) (map[crypto.Hash]*supply, []crypto.Hash) {
	d := st.Dump()
	res := map[crypto.Hash]*supply{}
	var order []crypto.Hash
	get := func(a crypto.Hash) *supply {
		if res[a] == nil {
			res[a] = &supply{new(big.Int), new(big.Int), new(big.Int)}
			order = append(order, a)
		}
		return res[a]
	}
	final := map[crypto.Hash]bool{}
	for _, e := range d.Entries {
		if e.Family == "FINALIZATION" {
			final[crypto.Hash(e.Key[len("FINALIZATION"):])] = true
		}
	}
	for _, e := range d.Entries {
		switch e.Family {
		case "ASSETINFO", "ASSETTOTAL":
			get(crypto.Hash(e.Key[len(e.Family):]))
		case "UTXO":
			u, err := common.UnmarshalUTXO(e.Value)
			if err != nil {
				panic(err)
			}
			s := get(u.Asset)
			if !u.LockHash.HasValue() || !final[u.LockHash] {
				s.unconsumed.Add(s.unconsumed, fin.Big(u.Amount))
			}
		case "TRANSACTION":
			h := crypto.Hash(e.Key[len("TRANSACTION"):])
			if !final[h] {
				continue
			}
			ver, err := common.UnmarshalVersionedTransaction(e.Value)
			if err != nil {
				panic(err)
			}
			s := get(ver.Asset)
			switch {
			case len(ver.Inputs[0].Genesis) > 0: // genesis allocation
				for _, o := range ver.Outputs {
					s.flow.Add(s.flow, fin.Big(o.Amount))
				}
			case ver.Inputs[0].Deposit != nil:
				s.flow.Add(s.flow, fin.Big(ver.Inputs[0].Deposit.Amount))
			case ver.Inputs[0].Mint != nil:
				s.flow.Add(s.flow, fin.Big(ver.Inputs[0].Mint.Amount))
			default:
				for _, o := range ver.Outputs {
					if o.Type == common.OutputTypeWithdrawalSubmit {
						s.flow.Sub(s.flow, fin.Big(o.Amount))
					}
				}
			}
		}
	}
	for a, s := range res {
		_, bal, err := st.S.ReadAssetWithBalance(a)
		if err != nil {
			panic(err)
		}
		s.total = fin.Big(bal)
	}
	return res, order
}

func checkSupply(c *vh.Ctx, cs Case, st *fin.Store, at string) (map[crypto.Hash]*supply, []crypto.Hash) {
	res, order := observe(st)
	for _, a := range order {
		s := res[a]
		if s.total.Cmp(s.flow) != 0 {
			c.Fail("total-differs-from-flow", fmt.Sprintf("%s: asset %s recorded total %s, genesis+deposits+mints-withdrawals = %s", at, a, s.total, s.flow), cs)
		}
		if s.total.Cmp(s.unconsumed) != 0 {
			c.Fail("total-differs-from-unconsumed", fmt.Sprintf("%s: asset %s recorded total %s, unconsumed outputs sum to %s", at, a, s.total, s.unconsumed), cs)
		}
		if s.total.Sign() < 0 {
			c.Fail("total-negative", fmt.Sprintf("%s: asset %s total %s", at, a, s.total), cs)
		}
		if s.total.Cmp(fin.Big(common.GetAssetCapacity(a))) > 0 {
			c.Fail("total-above-capacity", fmt.Sprintf("%s: asset %s total %s", at, a, s.total), cs)
		}
	}
	return res, order
}

// ---- session ---------------------------------------------------------------------------

type Session struct {
	c      *vh.Ctx
	st     *fin.Store
	cs     Case
	hops   []string
	nsnap  int
	nfinal int
}

func (se *Session) Do(op fin.OpSpec) string {
	se.cs.Ops = append(se.cs.Ops, op)
	if op.Kind == "validated" {
		class, hops := se.st.ExecValidated(op)
		se.hops = append(se.hops, hops...)
		return class
	}
	class, term := se.st.Exec(op)
	if term != "" {
		se.hops = append(se.hops, vh.App("HOp", term, fin.CoqRes(class)))
	}
	if op.Kind == "snap" || op.Kind == "genesis" {
		se.nsnap++
		if class == "ok" {
			se.nfinal += len(op.Genesis)
			if op.Snap != nil {
				se.nfinal += len(op.Snap.Txs)
			}
		}
		checkSupply(se.c, se.cs, se.st, fmt.Sprintf("after op %d", len(se.cs.Ops)-1))
	}
	return class
}

func (se *Session) Finish(kind string) {
	res, order := checkSupply(se.c, se.cs, se.st, "end")
	var obs []string
	for _, a := range order {
		s := res[a]
		obs = append(obs, vh.App("OAsset", vh.BytesAsN(a[:]), vh.Z(s.total), vh.Z(s.unconsumed), vh.Z(s.flow)))
	}
	term := vh.App("CSupply", vh.List(se.hops, "hop"), vh.List(obs, "obs_asset"))
	key := fmt.Sprintf("%s|%x", kind, crypto.Blake3Hash([]byte(term)))
	se.c.Case(kind, key, se.nfinal >= 3 && len(order) >= 1, se.cs, term)
	se.st.Close()
}

// ---- generator ----------------------------------------------------------------------------

type out struct {
	hash  string
	index uint
	amt   *big.Int
	owner int // account index, -1 when not spendable by signature
}

type ptx struct {
	spec fin.TxSpec
	hash string
	node string // the node whose snapshot finalized it
}

type Gen struct {
	se      *Session
	r       *vh.Rand
	seeds   []string
	assets  []string
	known   map[string]bool
	avail   map[string][]out
	pending []*ptx
	done    []*ptx
	nodes   []string
	refs    map[string][2]string
	topo    uint64
	ts      uint64
	depN    int
	mintN   uint64
	submits []string
	pledged bool
}

func units(v *big.Int) string { return v.String() }

func (g *Gen) amount(maxWhole int) *big.Int {
	v := big.NewInt(int64(g.r.Range(1, maxWhole)))
	v.Mul(v, e8)
	if g.r.Chance(1, 3) {
		v.Add(v, big.NewInt(int64(g.r.Intn(100000000))))
	}
	return v
}

// an output to account `owner`, with real ghost keys so that it can be spent by signature
func (g *Gen) ownedOut(owner int, amt *big.Int, index int) fin.OutSpec {
	acc := fin.Account(g.seeds[owner])
	seed := g.r.Bytes(64)
	tmp := common.NewTransactionV5(common.XINAssetId)
	for i := 0; i < index; i++ { // the ghost key derivation depends on the output index
		tmp.Outputs = append(tmp.Outputs, &common.Output{})
	}
	tmp.AddScriptOutput([]*common.Address{acc}, common.NewThresholdScript(1), common.VerifIntegerFromBig(amt), seed)
	o := tmp.Outputs[index]
	spec := fin.OutSpec{Type: common.OutputTypeScript, Amount: units(amt), Script: hex.EncodeToString(o.Script), Mask: hex.EncodeToString(o.Mask[:])}
	for _, k := range o.Keys {
		spec.Keys = append(spec.Keys, hex.EncodeToString(k[:]))
	}
	return spec
}

func newGen(se *Session, r *vh.Rand) *Gen {
	g := &Gen{se: se, r: r, known: map[string]bool{}, avail: map[string][]out{}, refs: map[string][2]string{}, ts: 1_700_000_000_000_000_000}
	for i := 0; i < 3; i++ {
		g.seeds = append(g.seeds, hex.EncodeToString(r.Bytes(64)))
	}
	xin := hexH(common.XINAssetId)
	g.assets = []string{xin, hexH(common.BitcoinAssetId), hexH(common.EthereumAssetId), hexH(crypto.Blake3Hash(r.Bytes(8)))}
	// genesis: a few XIN allocations, then a node accept (LoadGenesis wants a consensus transaction last)
	var gen []fin.GenEntry
	n := r.Range(2, 4)
	for i := 0; i <= n; i++ {
		spec := fin.TxSpec{Asset: xin, Inputs: []fin.InSpec{{Kind: "genesis", TxID: fmt.Sprintf("genesis-%d", i)}}}
		if i < n {
			for j, m := 0, r.Range(1, 3); j < m; j++ {
				spec.Outputs = append(spec.Outputs, g.ownedOut(r.Intn(3), g.amount(20000), j))
			}
		} else {
			spec.Outputs = []fin.OutSpec{{Type: common.OutputTypeNodeAccept, Amount: units(new(big.Int).Mul(big.NewInt(13439), e8))}}
			spec.Extra = hex.EncodeToString(r.Bytes(64))
		}
		h := hexH(spec.Build().PayloadHash())
		node := hexH(crypto.Blake3Hash(r.Bytes(16)))
		gen = append(gen, fin.GenEntry{Tx: spec, Snap: fin.SnapSpec{Node: node, Round: 0, TS: g.ts + uint64(i), Txs: []string{h}, Topo: uint64(i)}})
		g.done = append(g.done, &ptx{spec, h, node})
		g.track(spec, h)
	}
	g.topo = uint64(n)
	if se.Do(fin.OpSpec{Kind: "genesis", Genesis: gen}) != "ok" {
		panic("genesis refused")
	}
	g.known[xin] = true
	nn := r.Range(2, 3)
	for i := 0; i < nn; i++ {
		node := hexH(crypto.Blake3Hash(r.Bytes(16)))
		g.nodes = append(g.nodes, node)
		se.Do(fin.OpSpec{Kind: "round", Node: node})
	}
	for i := 0; i < nn; i++ {
		rs, re := hexH(crypto.Blake3Hash(r.Bytes(16))), g.nodes[(i+1)%nn]
		if i == nn-1 {
			break // the last node stays in round 0 (it is the external reference of the others)
		}
		g.refs[g.nodes[i]] = [2]string{rs, re}
		se.Do(fin.OpSpec{Kind: "round", Node: g.nodes[i], Round: 1, RefSelf: rs, RefExt: re})
	}
	return g
}

// track records the spendable outputs of a transaction that is (about to be) finalized
func (g *Gen) track(spec fin.TxSpec, h string) {
	for i, o := range spec.Outputs {
		if o.Type != common.OutputTypeScript {
			continue
		}
		amt, _ := new(big.Int).SetString(o.Amount, 10)
		owner := -1
		for ai, sd := range g.seeds {
			acc := fin.Account(sd)
			if len(o.Keys) == 1 && o.Mask != "" {
				mask := fin.K(o.Mask)
				k := crypto.ViewGhostOutputKey(keyPtr(fin.K(o.Keys[0])), &acc.PrivateViewKey, &mask, uint64(i))
				if *k == acc.PublicSpendKey {
					owner = ai
				}
			}
		}
		g.avail[spec.Asset] = append(g.avail[spec.Asset], out{h, uint(i), amt, owner})
	}
}

func keyPtr(k crypto.Key) *crypto.Key { return &k }

func (g *Gen) take(asset string, owner int) (out, bool) {
	l := g.avail[asset]
	for tries := 0; tries < 8 && len(l) > 0; tries++ {
		i := g.r.Intn(len(l))
		if owner >= 0 && l[i].owner != owner {
			continue
		}
		o := l[i]
		g.avail[asset] = append(l[:i:i], l[i+1:]...)
		return o, true
	}
	return out{}, false
}

// spend: 1..2 inputs of one owner, first output of type ft, change back to random accounts
func (g *Gen) spend(asset string, ft uint8, extra string, refs []string) (fin.TxSpec, bool) {
	first, ok := g.take(asset, -1)
	if !ok || first.owner < 0 {
		if ok {
			g.avail[asset] = append(g.avail[asset], first)
		}
		return fin.TxSpec{}, false
	}
	spec := fin.TxSpec{Asset: asset, Extra: extra, Refs: refs, Sign: []string{g.seeds[first.owner]}}
	sum := new(big.Int).Set(first.amt)
	spec.Inputs = append(spec.Inputs, fin.InSpec{Kind: "ord", Hash: first.hash, Index: first.index})
	if g.r.Bool() {
		if o, ok := g.take(asset, first.owner); ok {
			spec.Inputs = append(spec.Inputs, fin.InSpec{Kind: "ord", Hash: o.hash, Index: o.index})
			sum.Add(sum, o.amt)
		}
	}
	head := new(big.Int).Set(sum)
	if sum.Cmp(big.NewInt(4)) >= 0 && g.r.Chance(3, 4) {
		head.Div(sum, big.NewInt(int64(g.r.Range(2, 4))))
	}
	if ft == common.OutputTypeScript {
		spec.Outputs = append(spec.Outputs, g.ownedOut(g.r.Intn(3), head, 0))
	} else {
		spec.Outputs = append(spec.Outputs, fin.OutSpec{Type: ft, Amount: units(head)})
	}
	rest := new(big.Int).Sub(sum, head)
	if rest.Sign() > 0 && g.r.Bool() && rest.Cmp(big.NewInt(2)) >= 0 {
		half := new(big.Int).Div(rest, big.NewInt(2))
		spec.Outputs = append(spec.Outputs, g.ownedOut(g.r.Intn(3), half, len(spec.Outputs)))
		rest.Sub(rest, half)
	}
	if rest.Sign() > 0 {
		spec.Outputs = append(spec.Outputs, g.ownedOut(g.r.Intn(3), rest, len(spec.Outputs)))
	}
	return spec, true
}

func (g *Gen) byConstruction(spec fin.TxSpec) {
	hasOrd := false
	for _, in := range spec.Inputs {
		hasOrd = hasOrd || in.Kind == "ord"
	}
	if hasOrd && g.se.Do(fin.OpSpec{Kind: "lock", Tx: &spec}) != "ok" {
		return
	}
	if g.se.Do(fin.OpSpec{Kind: "write", Tx: &spec}) == "ok" {
		g.pending = append(g.pending, &ptx{spec, hexH(spec.Build().PayloadHash()), ""})
	}
}

func (g *Gen) validated(spec fin.TxSpec) bool {
	if g.se.Do(fin.OpSpec{Kind: "validated", Tx: &spec, TS: g.ts}) == "ok" {
		g.pending = append(g.pending, &ptx{spec, hexH(spec.Build().PayloadHash()), ""})
		return true
	}
	return false
}

func (g *Gen) room(asset string) *big.Int {
	a := fin.H(asset)
	_, bal, err := g.se.st.S.ReadAssetWithBalance(a)
	if err != nil {
		panic(err)
	}
	room := new(big.Int).Sub(fin.Big(common.GetAssetCapacity(a)), fin.Big(bal))
	// leave space for the other pending deposits / mints of this asset
	for _, p := range g.pending {
		if p.spec.Asset == asset && (p.spec.Inputs[0].Kind == "deposit" || p.spec.Inputs[0].Kind == "mint") {
			amt, _ := new(big.Int).SetString(p.spec.Inputs[0].Amount, 10)
			room.Sub(room, amt)
		}
	}
	return room
}

func (g *Gen) newTx() {
	asset := g.assets[g.r.Intn(len(g.assets))]
	switch k := g.r.Intn(14); {
	case !g.known[asset] || k < 3: // deposit: one input, one output of the deposited amount
		amt := g.amount(60)
		room := g.room(asset)
		if room.Cmp(big.NewInt(2)) < 0 {
			return
		}
		if amt.Cmp(room) >= 0 {
			amt.Sub(room, big.NewInt(1)) // right below the capacity
		}
		g.depN++
		spec := fin.TxSpec{Asset: asset,
			Inputs:  []fin.InSpec{{Kind: "deposit", Chain: hexH(common.EthereumAssetId), AKey: "0xkey" + asset[:6], TxID: fmt.Sprintf("0xdep%d", g.depN), DIndex: uint64(g.depN), Amount: units(amt)}},
			Outputs: []fin.OutSpec{g.ownedOut(g.r.Intn(3), amt, 0)}}
		g.byConstruction(spec)
		g.known[asset] = true
	case k < 4: // mint: outputs sum to the minted amount
		amt := g.amount(30)
		if room := g.room(asset); amt.Cmp(room) >= 0 {
			return
		}
		g.mintN++
		half := new(big.Int).Div(amt, big.NewInt(2))
		spec := fin.TxSpec{Asset: asset, Inputs: []fin.InSpec{{Kind: "mint", Batch: g.mintN, Amount: units(amt)}},
			Outputs: []fin.OutSpec{g.ownedOut(g.r.Intn(3), half, 0), g.ownedOut(g.r.Intn(3), new(big.Int).Sub(amt, half), 1)}}
		g.byConstruction(spec)
	case k < 9: // transfer through Validate
		if spec, ok := g.spend(asset, common.OutputTypeScript, "", nil); ok {
			if !g.validated(spec) {
				panic("valid transfer refused")
			}
		}
	case k < 11: // withdrawal submission through Validate
		if spec, ok := g.spend(asset, common.OutputTypeWithdrawalSubmit, "", nil); ok {
			if !g.validated(spec) {
				panic("valid withdrawal submission refused")
			}
		}
	case k < 12: // withdrawal claim (XIN fee), by construction
		if len(g.submits) > 0 {
			if spec, ok := g.spend(g.assets[0], common.OutputTypeWithdrawalClaim, hex.EncodeToString(g.r.Bytes(70)), []string{g.submits[g.r.Intn(len(g.submits))]}); ok {
				spec.Sign = nil
				g.byConstruction(spec)
			}
		}
	case k < 13: // invalid attempts: Validate must refuse them, nothing is admitted
		if spec, ok := g.spend(asset, common.OutputTypeScript, "", nil); ok {
			amt, _ := new(big.Int).SetString(spec.Outputs[0].Amount, 10)
			if g.r.Bool() {
				spec.Outputs[0].Amount = units(amt.Add(amt, big.NewInt(int64(g.r.Range(1, 1000))))) // outputs exceed inputs
			} else {
				spec.Sign = []string{hex.EncodeToString(g.r.Bytes(64))} // signed by a stranger
			}
			g.se.c.Count("invalid-attempt")
			if g.validated(spec) {
				g.se.c.Fail("invalid-admitted", "Validate admitted a transaction that creates value or is not signed by the owner", g.se.cs)
			}
			// the inputs stay unspent
			for _, in := range spec.Inputs {
				for _, p := range g.done {
					if p.hash == in.Hash {
						amt, _ := new(big.Int).SetString(p.spec.Outputs[in.Index].Amount, 10)
						g.avail[asset] = append(g.avail[asset], out{in.Hash, in.Index, amt, g.ownerOf(p.spec, int(in.Index))})
					}
				}
			}
		}
	default: // node pledge (XIN), by construction; one per history (a second pledge cannot be finalized while the first is pending)
		if g.pledged {
			return
		}
		if spec, ok := g.spend(g.assets[0], common.OutputTypeNodePledge, hex.EncodeToString(g.r.Bytes(64)), nil); ok {
			spec.Sign = nil
			g.byConstruction(spec)
			g.pledged = true
		}
	}
}

func (g *Gen) ownerOf(spec fin.TxSpec, i int) int {
	o := spec.Outputs[i]
	for ai, sd := range g.seeds {
		acc := fin.Account(sd)
		if len(o.Keys) == 1 && o.Mask != "" {
			mask := fin.K(o.Mask)
			k := crypto.ViewGhostOutputKey(keyPtr(fin.K(o.Keys[0])), &acc.PrivateViewKey, &mask, uint64(i))
			if *k == acc.PublicSpendKey {
				return ai
			}
		}
	}
	return -1
}

func (g *Gen) snapshot(size int) {
	for tries := 0; len(g.pending) < size && tries < 8*size+10; tries++ {
		g.newTx()
	}
	if len(g.pending) == 0 {
		return
	}
	if size > len(g.pending) {
		size = len(g.pending)
	}
	perm := make([]int, len(g.pending))
	for i := range perm {
		perm[i] = i
	}
	for i := len(perm) - 1; i > 0; i-- {
		j := g.r.Intn(i + 1)
		perm[i], perm[j] = perm[j], perm[i]
	}
	var batch []*ptx
	seen := map[string]bool{}
	var txs []string
	for _, i := range perm[:size] {
		batch = append(batch, g.pending[i])
		txs = append(txs, g.pending[i].hash)
		seen[g.pending[i].hash] = true
	}
	// present members finalized earlier again (another node): they must not count twice
	node := g.nodes[g.r.Intn(len(g.nodes)-1)]
	for n := g.r.Intn(3); n > 0 && len(g.done) > 0; n-- {
		d := g.done[g.r.Intn(len(g.done))]
		if !seen[d.hash] && (d.node != node || g.r.Chance(1, 10)) { // the same node again trips the uniqueness assertion
			seen[d.hash] = true
			txs = append(txs, d.hash)
		}
	}
	g.topo++
	g.ts += uint64(g.r.Range(1, 1000)) * 1_000_000
	rf := g.refs[node]
	sp := &fin.SnapSpec{Node: node, Round: 1, RefSelf: rf[0], RefExt: rf[1], TS: g.ts, Txs: txs, Topo: g.topo}
	class := g.se.Do(fin.OpSpec{Kind: "snap", Snap: sp})
	if class != "ok" {
		// the same node presenting a member twice trips the uniqueness assertion; everything stays pending
		g.se.c.Count("snapshot-" + class)
		return
	}
	in := map[string]bool{}
	for _, p := range batch {
		in[p.hash] = true
	}
	var rest []*ptx
	for _, p := range g.pending {
		if !in[p.hash] {
			rest = append(rest, p)
			continue
		}
		p.node = node
		g.done = append(g.done, p)
		g.track(p.spec, p.hash)
		if p.spec.Outputs[0].Type == common.OutputTypeWithdrawalSubmit {
			g.submits = append(g.submits, p.hash)
		}
	}
	g.pending = rest
}

func history(c *vh.Ctx, r *vh.Rand, steps, maxBatch int, kind string) {
	se := &Session{c: c, st: fin.OpenStore()}
	g := newGen(se, r)
	for i := 0; i < steps; i++ {
		g.snapshot(r.Range(1, maxBatch))
	}
	se.Finish(kind)
}

func replay(c *vh.Ctx, cs Case) {
	se := &Session{c: c, st: fin.OpenStore()}
	for _, op := range cs.Ops {
		se.Do(op)
	}
	se.cs = cs
	se.Finish("replay")
}

func main() {
	c := vh.Start("C17")
	c.Rep.Rule = "a case is one finalized history on a fresh Badger store: LoadGenesis XIN allocations, then batches of deposits, mints, signed transfers and withdrawal submissions admitted through Validate, withdrawal claims and node pledges, finalized by WriteSnapshot (members of earlier snapshots presented again); invalid attempts must be refused by Validate; non-trivial = at least 3 finalized transactions; distinct = digest of the history"
	if c.Replay != "" {
		var cs Case
		c.ReplayCase(&cs)
		replay(c, cs)
		c.Finish()
		return
	}
	// corpus: short histories, one long history with small batches, then random ones
	history(c, c.Rng.Fork("short"), 2, 2, "history-short")
	history(c, c.Rng.Fork("long"), c.Scale(15, 120), 4, "history-long")
	n := c.Scale(7, 250)
	for i := 0; i < n; i++ {
		history(c, c.Rng.Fork(fmt.Sprintf("h%d", i)), c.Rng.Range(3, 9), 8, "history")
	}
	c.Finish()
}
