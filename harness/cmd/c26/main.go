// C26 harness: node work is credited exactly once per snapshot.
//
// A case is a whole history of storage.(*BadgerStore).WriteRoundWork calls on
// node ids that no other case of the run uses (one real Badger store is shared
// by the run; every key WriteRoundWork / ListNodeWorks touches contains a node
// id).  After every call the ListNodeWorks table of all ids x all days of the
// case and ReadWorkOffset of all ids are read back.
//
//   - model: the history, the outcome class of every call (returned/panicked),
//     the final table and the final offsets go to coq/Run/C26.v.
//   - oracle (from the property text, not from the model): after every call of
//     a history built from valid (monotone, consecutive) submissions, the lead
//     counter of (n, d) must equal the number of DISTINCT snapshot hashes of
//     day d submitted so far for n in credited rounds, the sign counter of
//     (m, d) the number of those whose signers contain m (m not the proposer);
//     a valid submission must not panic; a submission of an older round and a
//     panicking call must leave table and offsets unchanged.
package main

import (
	"fmt"
	"math/big"
	"os"
	"sort"
	"strings"

	"github.com/MixinNetwork/mixin/common"
	"github.com/MixinNetwork/mixin/config"
	"github.com/MixinNetwork/mixin/crypto"
	"github.com/MixinNetwork/mixin/storage"
	"verifharness/vh"
)

const day = uint64(86400000000000) // only used to GENERATE timestamps and by the oracle (property: "its day")

// ids and hashes are hex strings of at most 64 digits (big-endian, left padded)
type Snap struct {
	H  string   `json:"h"`
	Ts uint64   `json:"ts"`
	Sg []string `json:"sg"`
}

// Class: "valid"   next or same round with a superset of the node's previous submission
//
//	"stale"   an older round than the node's current one
//	"invalid" anything else (the oracle only checks atomicity if it panics,
//	          and stops judging the case if it does not)
type Sub struct {
	Node   string `json:"node"`
	Round  uint64 `json:"round"`
	Snaps  []Snap `json:"snaps"`
	Credit bool   `json:"credit"`
	Class  string `json:"class"`
	Shape  string `json:"shape,omitempty"`
}

type Case struct {
	Kind   string `json:"kind"`
	Subs   []Sub  `json:"subs"`
	Oracle bool   `json:"oracle"` // false: model comparison only
	// true: too big for a Coq term, judged by the oracle only
	NoModel bool `json:"nomodel,omitempty"`
	// concurrent mode (concurrent.go): overlapping submissions, oracle only
	Conc *ConcSpec `json:"conc,omitempty"`
}

func hid(u uint64) string { return fmt.Sprintf("%x", u) }

func toHash(s string) crypto.Hash {
	v, ok := new(big.Int).SetString(s, 16)
	if !ok || v.Sign() < 0 || v.BitLen() > 256 {
		panic("bad id " + s)
	}
	var h crypto.Hash
	v.FillBytes(h[:])
	return h
}

func coqN(s string) string { h := toHash(s); return vh.BytesAsN(h[:]) }

// ---- the real store ---------------------------------------------------------

var (
	theStore *storage.BadgerStore
	storeDir string
)

func openStore() *storage.BadgerStore {
	if theStore != nil {
		return theStore
	}
	repo := os.Getenv("VERIF_REPO")
	if repo == "" {
		repo = "/repo"
	}
	custom, err := config.Initialize(repo + "/config/config.example.toml")
	if err != nil {
		panic(err)
	}
	dir, err := os.MkdirTemp("", "verif-c26-")
	if err != nil {
		panic(err)
	}
	s, err := storage.NewBadgerStore(custom, dir)
	if err != nil {
		panic(err)
	}
	theStore, storeDir = s, dir
	return s
}

func closeStore() {
	if theStore != nil {
		theStore.Close()
		os.RemoveAll(storeDir)
		theStore = nil
	}
}

type cell struct {
	id string
	d  uint32
}

func readTable(s *storage.BadgerStore, ids []string, days []uint32) map[cell][2]uint64 {
	hs := make([]crypto.Hash, len(ids))
	for i, id := range ids {
		hs[i] = toHash(id)
	}
	t := map[cell][2]uint64{}
	for _, d := range days {
		m, err := s.ListNodeWorks(hs, d)
		if err != nil {
			panic(err)
		}
		for i, id := range ids {
			t[cell{id, d}] = m[hs[i]]
		}
	}
	return t
}

func readOffs(s *storage.BadgerStore, ids []string) map[string]uint64 {
	o := map[string]uint64{}
	for _, id := range ids {
		v, err := s.ReadWorkOffset(toHash(id))
		if err != nil {
			panic(err)
		}
		o[id] = v
	}
	return o
}

func sameTable(a, b map[cell][2]uint64) bool {
	for k, v := range a {
		if b[k] != v {
			return false
		}
	}
	return true
}

func sameOffs(a, b map[string]uint64) bool {
	for k, v := range a {
		if b[k] != v {
			return false
		}
	}
	return true
}

// ---- compact Coq terms -----------------------------------------------------------

// every distinct snapshot (hash, timestamp, signer list) of a case is printed once
type snapPool struct {
	pos   map[string]int
	snaps []Snap
}

func (p *snapPool) index(w Snap) int {
	k := fmt.Sprintf("%s|%d|%s", w.H, w.Ts, strings.Join(w.Sg, ","))
	if i, ok := p.pos[k]; ok {
		return i
	}
	p.pos[k] = len(p.snaps)
	p.snaps = append(p.snaps, w)
	return len(p.snaps) - 1
}

func (p *snapPool) terms(idPos map[string]int) []string {
	out := make([]string, len(p.snaps))
	for i, w := range p.snaps {
		sg := make([]string, len(w.Sg))
		for k, g := range w.Sg {
			sg[k] = fmt.Sprint(idPos[g])
		}
		pos := make([]int, len(w.Sg))
		for k, g := range w.Sg {
			pos[k] = idPos[g]
		}
		if from, ok := contiguous(pos); ok {
			out[i] = vh.App("PSR", strings.TrimSuffix(coqN(w.H), "%N"), fmt.Sprint(w.Ts), fmt.Sprint(from), fmt.Sprint(len(pos)))
			continue
		}
		out[i] = vh.App("PS", strings.TrimSuffix(coqN(w.H), "%N"), fmt.Sprint(w.Ts), natList(sg))
	}
	return out
}

// a list of at least 8 positions from, from+1, ... is printed as a range
func contiguous(pos []int) (int, bool) {
	if len(pos) < 8 {
		return 0, false
	}
	for k := range pos {
		if pos[k] != pos[0]+k {
			return 0, false
		}
	}
	return pos[0], true
}

// lists of plain numerals under one scope delimiter
func natList(l []string) string {
	if len(l) == 0 {
		return "(@nil nat)"
	}
	for i := range l {
		l[i] = strings.TrimSuffix(l[i], "%nat")
	}
	return "[" + strings.Join(l, ";") + "]%nat"
}

func zList(l []string) string {
	if len(l) == 0 {
		return "(@nil Z)"
	}
	return "[" + strings.Join(l, ";") + "]%Z"
}

// ---- run one case -------------------------------------------------------------

func idsAndDays(cs Case) ([]string, []uint32) {
	idset, dayset := map[string]bool{}, map[uint32]bool{}
	for _, sb := range cs.Subs {
		idset[sb.Node] = true
		for _, w := range sb.Snaps {
			dayset[uint32(w.Ts/day)] = true
			for _, g := range w.Sg {
				idset[g] = true
			}
		}
	}
	ids := make([]string, 0, len(idset))
	for id := range idset {
		ids = append(ids, id)
	}
	sort.Slice(ids, func(i, j int) bool {
		a, b := toHash(ids[i]), toHash(ids[j])
		return string(a[:]) < string(b[:])
	})
	days := make([]uint32, 0, len(dayset)+1)
	for d := range dayset {
		days = append(days, d)
	}
	sort.Slice(days, func(i, j int) bool { return days[i] < days[j] })
	if len(days) > 0 {
		days = append(days, days[len(days)-1]+1) // a day nobody worked on
	} else {
		days = append(days, 0)
	}
	return ids, days
}

// canonical key: ids and hashes renamed by first appearance, timestamps kept
func canonKey(cs Case) string {
	names := map[string]int{}
	nm := func(s string) int {
		h := toHash(s)
		k := string(h[:])
		if (h == crypto.Hash{}) {
			return -1
		}
		if v, ok := names[k]; ok {
			return v
		}
		names[k] = len(names)
		return names[k]
	}
	var sb strings.Builder
	for _, s := range cs.Subs {
		fmt.Fprintf(&sb, "%d.%d.%v[", nm(s.Node), s.Round, s.Credit)
		for _, w := range s.Snaps {
			fmt.Fprintf(&sb, "%d@%d(", nm(w.H), w.Ts)
			for _, g := range w.Sg {
				fmt.Fprintf(&sb, "%d,", nm(g))
			}
			sb.WriteString(")")
		}
		sb.WriteString("]")
	}
	return sb.String()
}

func run(c *vh.Ctx, cs Case) {
	if cs.Conc != nil {
		runConcurrent(c, cs)
		return
	}
	s := openStore()
	ids, days := idsAndDays(cs)
	idPos := map[string]int{}
	for i, id := range ids {
		idPos[id] = i
	}
	pool := &snapPool{pos: map[string]int{}}

	// the store must not already know these ids (fresh state of the model)
	t0, o0 := readTable(s, ids, days), readOffs(s, ids)
	for _, v := range t0 {
		if v != [2]uint64{} {
			panic("harness: node ids of the case are not fresh on the store")
		}
	}
	for _, v := range o0 {
		if v != 0 {
			panic("harness: node ids of the case are not fresh on the store")
		}
	}

	// oracle state
	judging := cs.Oracle
	distinct := map[string]map[string]bool{} // node -> hashes submitted so far
	expLead, expSign := map[cell]uint64{}, map[cell]uint64{}
	failed := false
	fail := func(sig, what string) {
		if !failed {
			c.Fail(sig, what, cs)
			failed = true
		}
	}

	var rsubs []string
	prevT, prevO := t0, o0
	credited := false
	for i, sb := range cs.Subs {
		works := make([]*common.SnapshotWork, len(sb.Snaps))
		for j, w := range sb.Snaps {
			sw := &common.SnapshotWork{Hash: toHash(w.H), Timestamp: w.Ts}
			for _, g := range w.Sg {
				sw.Signers = append(sw.Signers, toHash(g))
			}
			works[j] = sw
		}
		var err error
		pan, pv := vh.Catch(func() { err = s.WriteRoundWork(toHash(sb.Node), sb.Round, works, sb.Credit) })
		if !pan && err != nil {
			panic(fmt.Errorf("harness: WriteRoundWork I/O error %v", err))
		}
		curT, curO := readTable(s, ids, days), readOffs(s, ids)
		if !sameTable(prevT, curT) {
			credited = true
		}

		// Coq term of the call (node and snapshots by position)
		ix, ixn := make([]string, len(sb.Snaps)), make([]int, len(sb.Snaps))
		for j, w := range sb.Snaps {
			ixn[j] = pool.index(w)
			ix[j] = vh.Nat(ixn[j])
		}
		if from, ok := contiguous(ixn); ok {
			rsubs = append(rsubs, vh.App("RRange", fmt.Sprint(idPos[sb.Node]), fmt.Sprint(sb.Round), vh.Bool(sb.Credit), vh.Bool(pan), fmt.Sprint(from), fmt.Sprint(len(ixn))))
		} else {
			rsubs = append(rsubs, vh.App("RSub", fmt.Sprint(idPos[sb.Node]), fmt.Sprint(sb.Round), vh.Bool(sb.Credit), vh.Bool(pan), natList(ix)))
		}

		// oracle
		if pan && (!sameTable(prevT, curT) || !sameOffs(prevO, curO)) {
			fail("panic-not-atomic", fmt.Sprintf("call %d panicked (%v) but counters or offsets changed", i, pv))
		}
		if judging {
			switch sb.Class {
			case "stale":
				if pan {
					fail("stale-panics", fmt.Sprintf("call %d re-submits an older round and panicked: %v", i, pv))
				} else if !sameTable(prevT, curT) || !sameOffs(prevO, curO) {
					fail("stale-changes-state", fmt.Sprintf("call %d re-submits an older round and changed counters or offset", i))
				}
			case "valid":
				if pan {
					fail("valid-submission-panics", fmt.Sprintf("call %d (valid monotone submission) panicked: %v", i, pv))
					judging = false
					break
				}
				if distinct[sb.Node] == nil {
					distinct[sb.Node] = map[string]bool{}
				}
				fresh := 0
				for _, w := range sb.Snaps {
					if distinct[sb.Node][w.H] {
						continue
					}
					distinct[sb.Node][w.H] = true
					fresh++
					if !sb.Credit {
						continue
					}
					d := uint32(w.Ts / day)
					expLead[cell{sb.Node, d}]++
					for _, g := range w.Sg {
						if toHash(g) != toHash(sb.Node) {
							expSign[cell{g, d}]++
						}
					}
				}
				if fresh == 0 && !sameTable(prevT, curT) {
					fail("replay-not-identity", fmt.Sprintf("call %d re-submits only snapshots already submitted and changed the counters", i))
				}
				for k, v := range curT {
					if v[0] != expLead[k] || v[1] != expSign[k] {
						sig := "lost-credit"
						if v[0] > expLead[k] || v[1] > expSign[k] {
							sig = "double-count"
						}
						fail(sig, fmt.Sprintf("after call %d: node %s day %d has lead=%d sign=%d, distinct submitted snapshots give lead=%d sign=%d",
							i, k.id, k.d, v[0], v[1], expLead[k], expSign[k]))
						judging = false
						break
					}
				}
				if curO[sb.Node] != sb.Round {
					fail("offset-wrong", fmt.Sprintf("after call %d: ReadWorkOffset=%d, submitted round %d", i, curO[sb.Node], sb.Round))
				}
			default: // invalid
				if !pan {
					judging = false // outside the property's histories: only the model judges the rest
				}
			}
		}
		prevT, prevO = curT, curO
	}

	// final observation for the model
	nodes := make([]string, len(ids))
	for i, id := range ids {
		nodes[i] = coqN(id)
	}
	dayl, table := []string{}, []string{}
	for _, d := range days {
		dayl = append(dayl, fmt.Sprint(d))
		vals := []string{}
		for _, id := range ids {
			v := prevT[cell{id, d}]
			vals = append(vals, fmt.Sprint(v[0]), fmt.Sprint(v[1]))
		}
		table = append(table, zList(vals))
	}
	offs := []string{}
	for _, id := range ids {
		offs = append(offs, fmt.Sprint(prevO[id]))
	}
	term := vh.App("CWork", vh.List(nodes, "N"), vh.List(pool.terms(idPos), "psnap"), vh.List(rsubs, "rsub"),
		zList(dayl), vh.List(table, "(list Z)"), zList(offs))
	if cs.NoModel {
		term = ""
	}
	c.Case(cs.Kind, canonKey(cs), credited, cs, term)
}

// ---- generators -----------------------------------------------------------------

type gen struct {
	r     *vh.Rand
	base  uint64 // node ids of the case are base+1..; unique per case of the run
	nextH uint64
}

func (g *gen) node(k int) string { return hid(g.base + uint64(k) + 1) }
func (g *gen) hash() string      { g.nextH++; return hid(g.nextH) }

func (g *gen) tsOn(d uint64) uint64 {
	switch g.r.Intn(4) {
	case 0:
		return d*day + uint64(g.r.Intn(1000)) + boolU(d == 0) // just after midnight (never 0)
	case 1:
		return d*day + day - 1 - uint64(g.r.Intn(1000)) // just before midnight
	}
	return d*day + 1 + g.r.U64()%(day-1)
}

func boolU(b bool) uint64 {
	if b {
		return 1
	}
	return 0
}

func shuffle[T any](r *vh.Rand, l []T) []T {
	o := append([]T(nil), l...)
	for i := len(o) - 1; i > 0; i-- {
		j := r.Intn(i + 1)
		o[i], o[j] = o[j], o[i]
	}
	return o
}

// signers: a random subset of the nodes that contains the proposer, no repeats
func (g *gen) signers(n, p int) []string {
	var sg []string
	for k := 0; k < n; k++ {
		if k == p || g.r.Chance(1, 2) {
			sg = append(sg, g.node(k))
		}
	}
	return shuffle(g.r, sg)
}

type nodeScript struct {
	p    int
	subs []Sub
}

// a valid script of one proposer: consecutive rounds, each submitted as
// monotone prefixes with repeats
func (g *gen) script(n, p int, d0 uint64, allCredit bool) nodeScript {
	sc := nodeScript{p: p}
	round := uint64(g.r.Intn(2))
	nr := g.r.Range(2, 3) // mostly short, so that a quick run affords ~300 histories
	if g.r.Chance(1, 4) {
		nr = g.r.Range(2, 6)
	}
	d := d0
	for k := 0; k < nr; k++ {
		if k > 0 && g.r.Chance(1, 2) {
			d++ // consecutive rounds on different days
		}
		cnt := g.r.Range(1, 4)
		if g.r.Chance(1, 4) {
			cnt = g.r.Range(1, 12)
		}
		all := make([]Snap, cnt)
		for i := range all {
			all[i] = Snap{H: g.hash(), Ts: g.tsOn(d), Sg: g.signers(n, p)}
		}
		credit := allCredit || g.r.Chance(4, 5)
		m := g.r.Range(1, 3)
		if g.r.Chance(1, 6) {
			m = 4
		}
		lens := make([]int, m)
		for i := range lens {
			lens[i] = g.r.Range(1, cnt)
			if g.r.Chance(1, 12) {
				lens[i] = 0
			}
			if g.r.Chance(1, 3) {
				lens[i] = cnt
			}
		}
		sort.Ints(lens)
		for _, l := range lens {
			sn := append([]Snap(nil), all[:l]...)
			if g.r.Bool() {
				sn = shuffle(g.r, sn)
			}
			sc.subs = append(sc.subs, Sub{Node: g.node(p), Round: round, Snaps: sn, Credit: credit, Class: "valid"})
		}
		round++
	}
	return sc
}

// per-node progress while the scripts are merged
type prog struct {
	started bool
	round   uint64
	last    []Snap
	credit  bool
	older   []Sub // last submission of every finished round
}

func (g *gen) validCase(kind string, inject string) Case {
	n := g.r.Range(3, 8)
	d0 := uint64(g.r.Range(1, 20000))
	np := g.r.Range(1, 2)
	if g.r.Chance(1, 5) {
		np = g.r.Range(1, n)
	}
	scripts := []nodeScript{}
	for _, p := range shuffle(g.r, seq(n))[:np] {
		scripts = append(scripts, g.script(n, p, d0+uint64(g.r.Intn(2)), inject != ""))
	}
	cs := Case{Kind: kind, Oracle: true}
	st := map[string]*prog{}
	total := 0
	for _, sc := range scripts {
		total += len(sc.subs)
	}
	injectAt := -1
	if inject != "" {
		injectAt = g.r.Intn(total + 1)
	}
	pos := make([]int, len(scripts))
	for step := 0; ; step++ {
		if step == injectAt || (injectAt >= 0 && step > injectAt && inject != "" && g.r.Chance(1, 10)) {
			p := scripts[g.r.Intn(len(scripts))].p
			if sb, oracleOK, ok := g.invalid(inject, n, p, st[g.node(p)], d0); ok {
				cs.Subs = append(cs.Subs, sb)
				if !oracleOK {
					cs.Oracle = false
				}
				if !oracleOK || sb.Class == "valid" {
					// the anomaly is accepted by the store: it becomes the node's last submission
					pg := st[sb.Node]
					if pg == nil {
						pg = &prog{}
						st[sb.Node] = pg
					}
					pg.started, pg.round, pg.last, pg.credit = true, sb.Round, sb.Snaps, sb.Credit
				}
			}
		}
		live := []int{}
		for i := range scripts {
			if pos[i] < len(scripts[i].subs) {
				live = append(live, i)
			}
		}
		if len(live) == 0 {
			break
		}
		i := live[g.r.Intn(len(live))]
		sb := scripts[i].subs[pos[i]]
		pos[i]++
		pg := st[sb.Node]
		if pg == nil {
			pg = &prog{}
			st[sb.Node] = pg
		}
		// an accepted anomaly of the same round must stay covered
		if !cs.Oracle && pg.started && pg.round == sb.Round {
			sb.Snaps = union(sb.Snaps, pg.last)
		}
		if pg.started && pg.round != sb.Round {
			pg.older = append(pg.older, Sub{Node: sb.Node, Round: pg.round, Snaps: pg.last, Credit: pg.credit})
		}
		pg.started, pg.round, pg.last, pg.credit = true, sb.Round, sb.Snaps, sb.Credit
		cs.Subs = append(cs.Subs, sb)
		// sometimes replay an older round of this node: a no-op
		if len(pg.older) > 0 && g.r.Chance(1, 8) {
			o := pg.older[g.r.Intn(len(pg.older))]
			o.Class = "stale"
			if g.r.Chance(1, 3) { // even with snapshots never seen before
				o.Snaps = append(append([]Snap(nil), o.Snaps...), Snap{H: g.hash(), Ts: g.tsOn(d0), Sg: g.signers(n, scripts[i].p)})
			}
			cs.Subs = append(cs.Subs, o)
		}
	}
	return cs
}

func union(a, b []Snap) []Snap {
	have := map[string]bool{}
	o := append([]Snap(nil), a...)
	for _, w := range a {
		have[w.H] = true
	}
	for _, w := range b {
		if !have[w.H] {
			o = append(o, w)
		}
	}
	return o
}

func seq(n int) []int {
	o := make([]int, n)
	for i := range o {
		o[i] = i
	}
	return o
}

// one submission outside the valid histories, built against the node's
// progress.  oracleOK: the call is expected to be refused as a whole (a panic,
// state unchanged), so the oracle keeps judging the rest of the history.
func (g *gen) invalid(shape string, n, p int, pg *prog, d0 uint64) (Sub, bool, bool) {
	if pg == nil {
		pg = &prog{}
	}
	node := g.node(p)
	round := pg.round
	base := append([]Snap(nil), pg.last...)
	dd := d0
	if len(base) > 0 {
		dd = base[0].Ts / day
	}
	if !pg.started {
		round = uint64(g.r.Intn(2))
	}
	fresh := func() Snap { return Snap{H: g.hash(), Ts: g.tsOn(dd), Sg: g.signers(n, p)} }
	sb := Sub{Node: node, Round: round, Credit: true, Class: "invalid", Shape: shape}
	if pg.started && !pg.credit {
		// a round submitted with credit=false is not validated at all; keep the flag
		// and turn the case into a model-only one
		sb.Credit = false
	}
	switch shape {
	case "gap":
		sb.Round = pg.round + 2 + uint64(g.r.Intn(3))
		sb.Snaps = []Snap{fresh()}
		return sb, true, true
	case "missing":
		if len(base) == 0 {
			return sb, false, false
		}
		k := g.r.Intn(len(base))
		sb.Snaps = append(append([]Snap(nil), base[:k]...), base[k+1:]...)
		if g.r.Bool() {
			sb.Snaps = append(sb.Snaps, fresh())
		}
		return sb, true, true
	case "mixedday":
		a, b := fresh(), fresh()
		b.Ts = (dd+1)*day + uint64(g.r.Intn(5))
		if g.r.Bool() {
			b.Ts = dd*day - 1 - uint64(g.r.Intn(5))
		}
		sb.Snaps = append(base, shuffle(g.r, []Snap{a, b})...)
		return sb, sb.Credit, true
	case "zerots":
		a := fresh()
		a.Ts = 0
		sb.Snaps = append(base, a)
		if g.r.Bool() {
			sb.Snaps = append(sb.Snaps, fresh())
		}
		return sb, sb.Credit, true
	case "zerohash":
		a := fresh()
		a.H = "0"
		sb.Snaps = append(base, fresh(), a)
		return sb, sb.Credit, true
	case "noleader":
		a := fresh()
		a.Sg = nil
		for k := 0; k < n; k++ {
			if k != p {
				a.Sg = append(a.Sg, g.node(k))
			}
		}
		sb.Snaps = append(base, fresh(), a)
		return sb, sb.Credit, true
	// ---- accepted anomalies: the model judges, the oracle does not ----
	case "duphash":
		a := fresh()
		sb.Snaps = append(base, a, a)
		return sb, false, true
	case "emptysigners":
		a := fresh()
		a.Sg = nil
		sb.Snaps = append(base, a, fresh())
		return sb, false, true
	case "compensate":
		a, b := fresh(), fresh()
		a.Sg = append(a.Sg, node) // proposer twice
		b.Sg = nil
		for k := 0; k < n; k++ {
			if k != p {
				b.Sg = append(b.Sg, g.node(k)) // proposer absent
			}
		}
		sb.Snaps = append(base, a, b)
		return sb, false, true
	case "dupsigner":
		a := fresh()
		o := g.node((p + 1) % n)
		a.Sg = append(a.Sg, o, o)
		sb.Snaps = append(base, a)
		return sb, false, true
	case "creditflip":
		sb.Credit = !pg.credit
		sb.Snaps = append(base, fresh())
		return sb, false, true
	case "nocredit-garbage":
		a := fresh()
		a.Ts = 0
		a.Sg = nil
		sb.Credit = false
		sb.Snaps = append(base, a)
		return sb, false, true
	}
	panic("shape " + shape)
}

// One proposer, one round holding K credited snapshots (a round has no count
// limit in the callers: it is bounded in time only, see the note in main),
// submitted, re-submitted identically, grown by 1..5, re-submitted, then the
// next round on the next day (also hundreds of snapshots), re-submitted, and a
// replay of the finished round.  manySigners: 50..60 node ids, every snapshot
// signed by 30..50 of them.
func (g *gen) bigRound(K int, manySigners bool) Case {
	n, p := g.r.Range(3, 5), 0
	if manySigners {
		n = g.r.Range(50, 60)
	}
	p = g.r.Intn(n)
	sg := func() []string {
		if !manySigners {
			return g.signers(n, p)
		}
		l := g.r.Range(30, 50)
		lo := p - l + 1
		if lo < 0 {
			lo = 0
		}
		hi := p
		if hi > n-l {
			hi = n - l
		}
		a := g.r.Range(lo, hi) // a <= p < a+l <= n
		out := make([]string, l)
		for k := range out {
			out[k] = g.node(a + k)
		}
		return out
	}
	d := uint64(g.r.Range(1, 20000))
	mk := func(cnt int, d uint64, edge uint64) []Snap {
		l := make([]Snap, cnt)
		for i := range l {
			l[i] = Snap{H: g.hash(), Ts: g.tsOn(d), Sg: sg()}
		}
		l[g.r.Intn(cnt)].Ts = edge
		return l
	}
	round := uint64(g.r.Intn(2))
	node := g.node(p)
	S := mk(K, d, (d+1)*day-1) // one in the last nanosecond of the day
	G := mk(g.r.Range(1, 5), d, d*day+boolU(d == 0))
	K2 := K
	if K > 300 {
		K2 = g.r.Range(260, 320)
	}
	T := mk(K2, d+1, (d+1)*day) // next round starts at midnight
	SG := append(append([]Snap(nil), S...), G...)
	v := func(r uint64, sn []Snap, class string) Sub {
		return Sub{Node: node, Round: r, Snaps: sn, Credit: true, Class: class}
	}
	return Case{Kind: "biground", Oracle: true, Subs: []Sub{
		v(round, S, "valid"), v(round, S, "valid"), v(round, SG, "valid"), v(round, SG, "valid"),
		v(round+1, T, "valid"), v(round+1, T, "valid"), v(round, SG, "stale"), v(round+1, T, "valid"),
	}}
}

// chaotic stream: random rounds, random subsets of a small pool; the model judges
func (g *gen) chaos() Case {
	n := g.r.Range(2, 4)
	d0 := uint64(g.r.Range(1, 20000))
	pool := make([]Snap, g.r.Range(2, 6))
	for i := range pool {
		pool[i] = Snap{H: g.hash(), Ts: g.tsOn(d0 + uint64(g.r.Intn(2))), Sg: g.signers(n, g.r.Intn(n))}
		if g.r.Chance(1, 10) {
			pool[i].Ts = 0
		}
		if g.r.Chance(1, 10) {
			pool[i].Sg = nil
		}
		if g.r.Chance(1, 12) {
			pool[i].H = "0"
		}
	}
	cs := Case{Kind: "chaos", Oracle: false}
	for k := g.r.Range(3, 14); k > 0; k-- {
		sb := Sub{Node: g.node(g.r.Intn(n)), Round: uint64(g.r.Intn(4)), Credit: g.r.Chance(3, 4), Class: "invalid", Shape: "chaos"}
		for _, w := range shuffle(g.r, pool) {
			if g.r.Bool() {
				sb.Snaps = append(sb.Snaps, w)
			}
		}
		cs.Subs = append(cs.Subs, sb)
	}
	return cs
}

// ---- corpus of boundary cases ------------------------------------------------------

func corpus(base uint64) []Case {
	id := func(k uint64) string { return hid(base + k) }
	n1, n2, n3 := id(1), id(2), id(3)
	D := uint64(19000)
	sn := func(h uint64, ts uint64, sg ...string) Snap { return Snap{H: hid(h), Ts: ts, Sg: sg} }
	a := sn(1, D*day+5, n1, n2)
	b := sn(2, D*day+6, n1)
	cc := sn(3, D*day+7, n3, n1, n2)
	e := sn(4, (D+1)*day, n1, n3)
	v := func(node string, round uint64, credit bool, snaps ...Snap) Sub {
		return Sub{Node: node, Round: round, Snaps: snaps, Credit: credit, Class: "valid"}
	}
	inv := func(shape, node string, round uint64, credit bool, snaps ...Snap) Sub {
		return Sub{Node: node, Round: round, Snaps: snaps, Credit: credit, Class: "invalid", Shape: shape}
	}
	stale := func(node string, round uint64, credit bool, snaps ...Snap) Sub {
		return Sub{Node: node, Round: round, Snaps: snaps, Credit: credit, Class: "stale"}
	}
	rnd := func(s string) string { h := crypto.Blake3Hash([]byte(s)); return fmt.Sprintf("%x", h[:]) }
	r1, r2, rh1, rh2 := rnd("c26 node one"), rnd("c26 node two"), rnd("c26 snap one"), rnd("c26 snap two")
	max := ^uint64(0)
	return []Case{
		{Kind: "corpus", Oracle: true, Subs: []Sub{v(n1, 0, true, a)}},
		{Kind: "corpus", Oracle: true, Subs: []Sub{v(n1, 1, true, a, b)}},
		{Kind: "corpus", Oracle: true, Subs: []Sub{inv("gap", n1, 2, false)}}, // TestRoundWorkStateGuards
		{Kind: "corpus", Oracle: true, Subs: []Sub{v(n1, 1, false, a), v(n1, 1, false, a, b), inv("missing", n1, 1, false, a)}},
		{Kind: "corpus", Oracle: true, Subs: []Sub{inv("zerots", n1, 1, true, sn(1, 0, n1))}},
		{Kind: "corpus", Oracle: true, Subs: []Sub{inv("mixedday", n1, 1, true, sn(1, day, n1), sn(2, 2*day, n1))}},
		{Kind: "corpus", Oracle: true, Subs: []Sub{inv("zerohash", n1, 1, true, sn(0, day, n1))}},
		{Kind: "corpus", Oracle: true, Subs: []Sub{inv("noleader", n1, 1, true, sn(1, day, n2))}},
		// the same set three times is credited once
		{Kind: "corpus", Oracle: true, Subs: []Sub{v(n1, 1, true, a, b, cc), v(n1, 1, true, a, b, cc), v(n1, 1, true, cc, b, a)}},
		// growing prefixes, next round on the next day, replay of the finished round
		{Kind: "corpus", Oracle: true, Subs: []Sub{v(n1, 0, true, a), v(n1, 0, true, a, b), v(n1, 0, true, b, a), v(n1, 0, true, a, b, cc),
			v(n1, 1, true, e), stale(n1, 0, true, a, b, cc), stale(n1, 0, true, a, b, cc, sn(9, D*day+9, n1)), v(n1, 1, true, e)}},
		// midnight: last nanosecond of a day and first of the next in different rounds, then in one round
		{Kind: "corpus", Oracle: true, Subs: []Sub{v(n1, 1, true, sn(1, D*day-1, n1, n2)), v(n1, 2, true, sn(2, D*day, n1, n2)),
			inv("mixedday", n1, 3, true, sn(3, (D+1)*day-1, n1), sn(4, (D+1)*day, n1)), v(n1, 3, true, sn(3, (D+1)*day-1, n1))}},
		// two proposers signing for each other, interleaved
		{Kind: "corpus", Oracle: true, Subs: []Sub{v(n1, 0, true, a), v(n2, 1, true, sn(7, D*day+1, n2, n1)), v(n1, 0, true, a, b),
			v(n2, 1, true, sn(7, D*day+1, n2, n1), sn(8, D*day+2, n1, n2, n3)), v(n1, 1, true, e), v(n2, 2, true, sn(10, (D+1)*day+3, n2))}},
		// empty list first, then the round fills up
		{Kind: "corpus", Oracle: true, Subs: []Sub{v(n1, 0, true), v(n1, 0, true, a), v(n1, 0, true, a)}},
		// full 32-byte ids and hashes
		{Kind: "corpus", Oracle: true, Subs: []Sub{
			v(r1, 1, true, Snap{H: rh1, Ts: D*day + 1, Sg: []string{r2, r1}}),
			v(r1, 1, true, Snap{H: rh1, Ts: D*day + 1, Sg: []string{r2, r1}}, Snap{H: rh2, Ts: D*day + 2, Sg: []string{r1}}),
			v(r1, 1, true, Snap{H: rh2, Ts: D*day + 2, Sg: []string{r1}}, Snap{H: rh1, Ts: D*day + 1, Sg: []string{r2, r1}})}},
		// largest timestamp and day
		{Kind: "corpus", Oracle: true, Subs: []Sub{v(n1, 1, true, sn(1, max, n1, n2)), v(n1, 1, true, sn(1, max, n1, n2), sn(2, max-1, n1))}},
		// credit=false round: never counted, also not by a later credit=true replay (model only)
		{Kind: "corpus", Oracle: false, Subs: []Sub{inv("creditflip", n1, 1, false, a), inv("creditflip", n1, 1, true, a), inv("creditflip", n1, 1, true, a, b)}},
		// duplicate hash inside one list is counted twice (model only; excluded by NoDup)
		{Kind: "corpus", Oracle: false, Subs: []Sub{inv("duphash", n1, 1, true, a, a)}},
		// genesis-like first snapshot without signers: nothing is credited (model only)
		{Kind: "corpus", Oracle: false, Subs: []Sub{inv("emptysigners", n1, 0, true, sn(1, D*day+1), b), inv("emptysigners", n1, 0, true, sn(1, D*day+1), b)}},
		// proposer twice in one snapshot compensates a snapshot it did not sign (model only)
		{Kind: "corpus", Oracle: false, Subs: []Sub{inv("compensate", n1, 1, true, sn(1, D*day+1, n1, n1), sn(2, D*day+2, n2))}},
	}
}

func main() {
	c := vh.Start("C26")
	defer closeStore()
	c.Rep.Rule = "a case is a history of WriteRoundWork calls on fresh node ids of a real Badger store: 3..8 nodes, 1..n proposers, " +
		"2..6 consecutive rounds each (days advance between rounds, timestamps cluster at midnight), 1..12 snapshots per round with random " +
		"signer subsets containing the proposer, each round submitted 1..4 times as shuffled monotone prefixes with repeats, proposers " +
		"interleaved, older rounds replayed; inv-* kinds inject refused shapes (gap, missing, mixedday, zerots, zerohash, noleader), " +
		"anom-* kinds accepted anomalies (model only), chaos random rounds/subsets; biground: one proposer, a round of K snapshots " +
		"(quick 255,256,257,300 and ~300 with 30..50 signers each; thorough also 390,512,1000 and random 200..600), re-submitted, grown, " +
		"next round on the next day, replayed; concurrent (oracle only): 4..8 proposers sharing 10..30 signers submit round by round at the " +
		"same moment (prefix, full set, full set again; 300 + 216 overlapping calls in quick), ErrConflict retried as kernel/mint.go does, " +
		"counters compared with the exactly-once totals after all goroutines finished. non-trivial = some call changed a counter; " +
		"distinct = history up to renaming of ids"
	if c.Replay != "" {
		var cs Case
		c.ReplayCase(&cs)
		run(c, cs)
		c.Finish()
		return
	}
	caseNo := uint64(0)
	next := func() uint64 { caseNo++; return caseNo * 64 }
	for _, cs := range corpus(next()) {
		// corpus cases reuse the same three ids: give each its own
		cs = rebase(cs, next())
		run(c, cs)
	}
	// rounds with hundreds of snapshots: 255/256/257 around a power of two, 300,
	// and in the thorough tier up to 1000
	bigK := []int{255, 256, 257, 300}
	if c.Tier == "thorough" {
		bigK = append(bigK, 390, 512, 1000)
	}
	br := c.Rng.Fork("biground")
	for _, K := range bigK {
		run(c, (&gen{r: br, base: next()}).bigRound(K, false))
	}
	run(c, (&gen{r: br, base: next()}).bigRound(290+br.Intn(20), true))
	// overlapping submissions of several proposers sharing signers (oracle only)
	cr := c.Rng.Fork("concurrent")
	concs := []ConcSpec{
		{Proposers: 4, Watchers: 12, Rounds: 25, PerRound: 8, Day: 20000, AllSign: true},
		{Proposers: 6, Watchers: 10, Rounds: 12, PerRound: 6, Day: 20010, NextDayFrom: 7},
	}
	for i := 0; i < c.Scale(0, 10); i++ {
		concs = append(concs, ConcSpec{Proposers: cr.Range(2, 8), Watchers: cr.Range(1, 30), Rounds: cr.Range(5, 40),
			PerRound: cr.Range(1, 25), Day: uint64(cr.Range(19000, 21000)), NextDayFrom: cr.Intn(10), AllSign: cr.Chance(1, 3)})
	}
	for _, sp := range concs {
		sp.Base, sp.Seed = next(), cr.U64()>>1
		run(c, Case{Kind: "concurrent", Oracle: true, NoModel: true, Conc: &sp})
	}
	n := c.Scale(300, 10000)
	refused := []string{"gap", "missing", "mixedday", "zerots", "zerohash", "noleader"}
	accepted := []string{"duphash", "emptysigners", "compensate", "dupsigner", "creditflip", "nocredit-garbage"}
	for i := 0; i < n; i++ {
		g := &gen{r: c.Rng, base: next()}
		var cs Case
		if c.Tier == "thorough" && c.Rng.Chance(1, 400) {
			run(c, g.bigRound(c.Rng.Range(200, 600), c.Rng.Chance(1, 4)))
			g = &gen{r: c.Rng, base: next()}
		}
		switch k := c.Rng.Intn(20); {
		case k < 11:
			cs = g.validCase("valid", "")
		case k < 15:
			sh := refused[c.Rng.Intn(len(refused))]
			cs = g.validCase("inv-"+sh, sh)
		case k < 18:
			sh := accepted[c.Rng.Intn(len(accepted))]
			cs = g.validCase("anom-"+sh, sh)
		default:
			cs = g.chaos()
		}
		run(c, cs)
	}
	c.Finish()
}

// rebase renames the corpus ids base0+k (k small) to base+k; other ids are kept
func rebase(cs Case, base uint64) Case {
	ren := func(s string) string {
		v, ok := new(big.Int).SetString(s, 16)
		if ok && v.IsUint64() && v.Uint64() > 64 && v.Uint64() < 128 {
			return hid(base + v.Uint64() - 64)
		}
		return s
	}
	out := Case{Kind: cs.Kind, Oracle: cs.Oracle}
	for _, sb := range cs.Subs {
		nb := sb
		nb.Node = ren(sb.Node)
		nb.Snaps = nil
		for _, w := range sb.Snaps {
			nw := Snap{H: w.H, Ts: w.Ts}
			for _, g := range w.Sg {
				nw.Sg = append(nw.Sg, ren(g))
			}
			nb.Snaps = append(nb.Snaps, nw)
		}
		out.Subs = append(out.Subs, nb)
	}
	return out
}
