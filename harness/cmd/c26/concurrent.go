// Concurrent mode of the C26 harness (oracle only).
//
// In the kernel every chain runs its own AggregateMintWork goroutine, so
// WriteRoundWork transactions of DIFFERENT proposers overlap in time and bump
// the per-day signing counters of the signers they share by read-then-write.
// Exactly-once then rests on Badger aborting one of two overlapping
// transactions (badger.ErrConflict) and on the caller retrying
// (kernel/mint.go writeRoundWork).  A case of this kind starts one goroutine
// per proposer on the shared real store; round by round all proposers submit
// at the same moment (partial set, full set, the full set again), retrying on
// ErrConflict exactly as kernel/mint.go does.  Only after every goroutine has
// finished the oracle compares every counter with the exactly-once totals
// computed from the submitted sets alone: one proposal credit per distinct
// snapshot for its proposer, one signing credit for each other signer.  The
// totals are commutative sums, so every serial order of the calls gives them.
package main

import (
	"errors"
	"fmt"
	"sync"
	"time"

	"github.com/MixinNetwork/mixin/common"
	"github.com/MixinNetwork/mixin/crypto"
	"github.com/dgraph-io/badger/v4"
	"verifharness/vh"
)

// ConcSpec fully determines the submitted sets (not the interleaving).
type ConcSpec struct {
	Base      uint64 `json:"base"`      // node ids are Base+1 ..
	Proposers int    `json:"proposers"` // ids 0..Proposers-1 propose
	Watchers  int    `json:"watchers"`  // further ids that only sign
	Rounds    int    `json:"rounds"`
	PerRound  int    `json:"per_round"`
	Day       uint64 `json:"day"`
	// round (1-based) from which the snapshots are on Day+1; 0 = never
	NextDayFrom int    `json:"next_day_from,omitempty"`
	Seed        uint64 `json:"seed"` // signer subsets and prefix lengths
	// every snapshot is signed by every node (maximal sharing)
	AllSign bool `json:"all_sign,omitempty"`
}

type concRound struct {
	works  []*common.SnapshotWork
	prefix int
}

// the submitted sets of proposer p, round by round
func (sp *ConcSpec) rounds(p int, ids []crypto.Hash) []concRound {
	r := vh.NewRand(sp.Seed+uint64(p)*7919, "C26-concurrent")
	out := make([]concRound, sp.Rounds)
	for ri := range out {
		d := sp.Day
		if sp.NextDayFrom > 0 && ri+1 >= sp.NextDayFrom {
			d = sp.Day + 1
		}
		works := make([]*common.SnapshotWork, sp.PerRound)
		for k := range works {
			var sg []crypto.Hash
			for i, id := range ids {
				if i == p || sp.AllSign || r.Chance(2, 3) {
					sg = append(sg, id)
				}
			}
			works[k] = &common.SnapshotWork{
				Hash:      crypto.Blake3Hash(fmt.Appendf(nil, "verif-c26-conc-%d-%d-%d-%d", sp.Base, p, ri, k)),
				Timestamp: d*day + 1000 + uint64(ri)*100000 + uint64(p)*1000 + uint64(k),
				Signers:   sg,
			}
		}
		out[ri] = concRound{works: works, prefix: 1 + r.Intn(sp.PerRound)}
	}
	return out
}

// WriteRoundWork as kernel/mint.go writeRoundWork calls it: retry on conflict
func submitRetrying(node crypto.Hash, round uint64, works []*common.SnapshotWork) (err error, conflicts int, panicked any) {
	s := openStore()
	for tries := 0; ; tries++ {
		pan, val := vh.Catch(func() { err = s.WriteRoundWork(node, round, works, true) })
		if pan {
			return nil, conflicts, val
		}
		if err != nil && errors.Is(err, badger.ErrConflict) {
			conflicts++
			if tries > 100000 {
				return err, conflicts, nil
			}
			if tries > 20 {
				time.Sleep(time.Duration(tries%7) * 100 * time.Microsecond)
			}
			continue
		}
		return err, conflicts, nil
	}
}

func runConcurrent(c *vh.Ctx, cs Case) {
	sp := cs.Conc
	s := openStore()
	n := sp.Proposers + sp.Watchers
	ids := make([]crypto.Hash, n)
	names := make([]string, n)
	for i := range ids {
		names[i] = hid(sp.Base + uint64(i) + 1)
		ids[i] = toHash(names[i])
	}
	days := []uint32{uint32(sp.Day), uint32(sp.Day + 1)}
	for _, v := range readTable(s, names, days) {
		if v != [2]uint64{} {
			panic("harness: node ids of the case are not fresh on the store")
		}
	}

	plan := make([][]concRound, sp.Proposers)
	for p := range plan {
		plan[p] = sp.rounds(p, ids)
	}

	var mu sync.Mutex
	var problems []string
	conflicts, calls := 0, 0
	note := func(format string, a ...any) {
		mu.Lock()
		if len(problems) < 5 {
			problems = append(problems, fmt.Sprintf(format, a...))
		}
		mu.Unlock()
	}
	for ri := 0; ri < sp.Rounds; ri++ {
		// three waves per round: a prefix, the full set, the full set again
		for wave := 0; wave < 3; wave++ {
			var wg sync.WaitGroup
			start := make(chan struct{})
			for p := 0; p < sp.Proposers; p++ {
				works := plan[p][ri].works
				if wave == 0 {
					works = works[:plan[p][ri].prefix]
				}
				wg.Add(1)
				go func(p int, works []*common.SnapshotWork) {
					defer wg.Done()
					<-start
					err, cf, pan := submitRetrying(ids[p], uint64(ri+1), works)
					mu.Lock()
					conflicts += cf
					calls++
					mu.Unlock()
					if pan != nil {
						note("proposer %d round %d wave %d: WriteRoundWork panicked: %v", p, ri+1, wave, pan)
					} else if err != nil {
						note("proposer %d round %d wave %d: WriteRoundWork failed: %v", p, ri+1, wave, err)
					}
				}(p, works)
			}
			close(start)
			wg.Wait()
		}
	}

	// ---- oracle, after every goroutine has finished ------------------------
	expLead, expSign := map[cell]uint64{}, map[cell]uint64{}
	for p := range plan {
		for _, rd := range plan[p] {
			for _, w := range rd.works {
				d := uint32(w.Timestamp / day)
				expLead[cell{names[p], d}]++
				for _, sg := range w.Signers {
					if sg != ids[p] {
						for i := range ids {
							if ids[i] == sg {
								expSign[cell{names[i], d}]++
							}
						}
					}
				}
			}
		}
	}
	got := readTable(s, names, days)
	credited := false
	lost, expectedTotal := uint64(0), uint64(0)
	var firstBad string
	for _, nm := range names {
		for _, d := range days {
			k := cell{nm, d}
			g := got[k]
			if g != [2]uint64{} {
				credited = true
			}
			expectedTotal += expSign[k]
			if g[0] != expLead[k] || g[1] != expSign[k] {
				if firstBad == "" {
					firstBad = fmt.Sprintf("node %s day %d: lead %d (exactly-once total %d), sign %d (exactly-once total %d)",
						nm, d, g[0], expLead[k], g[1], expSign[k])
				}
				if g[1] < expSign[k] {
					lost += expSign[k] - g[1]
				}
			}
		}
	}
	offs := readOffs(s, names)
	for p := 0; p < sp.Proposers; p++ {
		if offs[names[p]] != uint64(sp.Rounds) {
			note("proposer %d: ReadWorkOffset %d after %d rounds", p, offs[names[p]], sp.Rounds)
		}
	}
	c.Note(fmt.Sprintf("concurrent case base=%d: %d overlapping calls, %d conflicts retried", sp.Base, calls, conflicts))
	key := fmt.Sprintf("conc|%d|%d|%d|%d|%d|%d|%v|%d", sp.Proposers, sp.Watchers, sp.Rounds, sp.PerRound, sp.Day, sp.NextDayFrom, sp.AllSign, sp.Seed)
	c.Case(cs.Kind, key, credited, cs, "")
	if firstBad != "" {
		c.Fail("concurrent-not-exactly-once", fmt.Sprintf("after %d overlapping WriteRoundWork calls of %d proposers sharing signers "+
			"(conflicts retried as kernel/mint.go does): %s; %d of %d signing credits lost", calls, sp.Proposers, firstBad, lost, expectedTotal), cs)
	}
	for _, p := range problems {
		c.Fail("concurrent-call-failed", p, cs)
	}
}
