package valsim

import (
	"sort"
	"strings"

	"github.com/MixinNetwork/mixin/common"
	"github.com/MixinNetwork/mixin/crypto"
	"verifharness/vh"
)

func hN(h crypto.Hash) string { return vh.BytesAsN(h[:]) }
func kN(k crypto.Key) string  { return vh.BytesAsN(k[:]) }

func amtZ(a common.Integer) string { return vh.Z(common.VerifIntegerBig(a)) }

func optTerm(present bool, v string, typ string) string {
	if present {
		return vh.Some(v)
	}
	return vh.None(typ)
}

func coqDeposit(d *common.DepositData) string {
	return vh.App("Build_deposit", hN(d.Chain), vh.Bytes([]byte(d.AssetKey)),
		vh.Bool(strings.TrimSpace(d.AssetKey) == d.AssetKey), vh.ZI(int64(len(d.Transaction))),
		vh.Bool(strings.TrimSpace(d.Transaction) == d.Transaction), vh.ZU(d.Index), amtZ(d.Amount))
}

func coqMint(m *common.MintData) string {
	return vh.App("Build_mint", vh.Bytes([]byte(m.Group)), vh.ZU(m.Batch), amtZ(m.Amount))
}

func coqInput(in *common.Input) string {
	gen := vh.None("Z")
	if in.Genesis != nil {
		gen = vh.Some(vh.ZI(int64(len(in.Genesis))))
	}
	dep := vh.None("deposit")
	if in.Deposit != nil {
		dep = vh.Some(coqDeposit(in.Deposit))
	}
	mint := vh.None("mint")
	if in.Mint != nil {
		mint = vh.Some(coqMint(in.Mint))
	}
	return vh.App("Build_input", hN(in.Hash), vh.ZU(uint64(in.Index)), gen, dep, mint)
}

func coqOutput(o *common.Output) string {
	keys := make([]string, len(o.Keys))
	for i, k := range o.Keys {
		keys[i] = kN(*k)
	}
	w := vh.None("(Z * Z)")
	if o.Withdrawal != nil {
		w = vh.Some("(" + vh.ZI(int64(len(o.Withdrawal.Address))) + ", " + vh.ZI(int64(len(o.Withdrawal.Tag))) + ")")
	}
	return vh.App("Build_output", vh.ZI(int64(o.Type)), amtZ(o.Amount), vh.List(keys, "N"), kN(o.Mask),
		vh.Bytes(o.Script), w)
}

// sigBits: for each signature map (by position) the (index, verifies) pairs,
// ascending by index.  A map at position i is checked against the keys of the
// UTXO spent by input i, if that input is an ordinary one present in the view.
func coqTx(tx *common.SignedTransaction, hash crypto.Hash, st *Store, withSigs bool) string {
	ins := make([]string, len(tx.Inputs))
	for i, in := range tx.Inputs {
		ins[i] = coqInput(in)
	}
	outs := make([]string, len(tx.Outputs))
	for i, o := range tx.Outputs {
		outs[i] = coqOutput(o)
	}
	refs := make([]string, len(tx.References))
	for i, r := range tx.References {
		refs[i] = hN(r)
	}
	agg := vh.None("(list Z)")
	sigs := vh.None("(list sigmap)")
	if withSigs {
		if as := tx.AggregatedSignature; as != nil {
			ss := make([]string, len(as.Signers))
			for i, m := range as.Signers {
				ss[i] = vh.ZI(int64(m))
			}
			agg = vh.Some(vh.List(ss, "Z"))
		}
		if tx.SignaturesMap != nil {
			maps := make([]string, len(tx.SignaturesMap))
			for i, sm := range tx.SignaturesMap {
				var keys []*crypto.Key
				if i < len(tx.Inputs) {
					in := tx.Inputs[i]
					if in.Mint == nil && in.Deposit == nil {
						if u := st.peekUTXO(in.Hash, in.Index); u != nil {
							keys = u.Keys
						}
					}
				}
				idx := make([]int, 0, len(sm))
				for k := range sm {
					idx = append(idx, int(k))
				}
				sort.Ints(idx)
				ents := make([]string, len(idx))
				for j, k := range idx {
					ok := false
					if sig := sm[uint16(k)]; sig != nil && k < len(keys) {
						ok = keys[k].Verify(hash, *sig)
					}
					ents[j] = "(" + vh.ZI(int64(k)) + ", " + vh.Bool(ok) + ")"
				}
				maps[i] = vh.List(ents, "(Z * bool)")
			}
			sigs = vh.Some(vh.List(maps, "sigmap"))
		}
	}
	return vh.App("Build_tx", vh.ZI(int64(tx.Version)), hN(tx.Asset), vh.List(ins, "input"), vh.List(outs, "output"),
		vh.List(refs, "N"), vh.Bytes(tx.Extra), agg, sigs)
}

func coqUtxo(u *common.UTXOWithLock) string {
	return vh.App("Build_utxo", vh.ZI(int64(u.Type)), hN(u.Asset), amtZ(u.Amount), vh.ZI(int64(len(u.Keys))),
		vh.Bytes(u.Script), hN(u.LockHash))
}

func stateCode(s string) int64 {
	switch s {
	case common.NodeStatePledging:
		return 0
	case common.NodeStateAccepted:
		return 1
	case common.NodeStateRemoved:
		return 2
	case common.NodeStateCancelled:
		return 3
	}
	return 4
}

func addrTerm(a common.Address) string {
	return "(" + kN(a.PublicSpendKey) + ", " + kN(a.PublicViewKey) + ")"
}

// Facts are the signature / curve results the model takes as parameters; each is
// computed by calling the repository's crypto on the operands the code would use.
type Facts struct {
	BadKeys    []crypto.Key
	Agg        bool
	Deposit    bool
	Claim      bool
	Accept     bool
	Cancel     bool
	CustPrev   bool
	GhostPanic bool
	GhostSame  bool
	CustNodes  [][2]bool
}

func keyFromExtra(extra []byte) (k crypto.Key) {
	copy(k[:], extra)
	return
}

func computeFacts(ver *common.VersionedTransaction, st *Store) *Facts {
	f := &Facts{}
	tx := &ver.SignedTransaction
	hash := ver.PayloadHash()
	seen := map[crypto.Key]bool{}
	chk := func(k crypto.Key) {
		if !seen[k] {
			seen[k] = true
			if !k.CheckKey() {
				f.BadKeys = append(f.BadKeys, k)
			}
		}
	}
	for _, o := range tx.Outputs {
		for _, k := range o.Keys {
			chk(*k)
		}
		chk(o.Mask)
	}
	chk(keyFromExtra(tx.Extra))

	if as := tx.AggregatedSignature; as != nil {
		var all []*crypto.Key
		for _, in := range tx.Inputs {
			if in.Mint != nil || in.Deposit != nil {
				break
			}
			u := st.peekUTXO(in.Hash, in.Index)
			if u == nil {
				break
			}
			all = append(all, u.Keys...)
		}
		vh.Catch(func() { f.Agg = crypto.AggregateVerify(&as.Signature, all, as.Signers, hash) == nil })
	}
	var sig00 *crypto.Signature
	if len(tx.SignaturesMap) == 1 && len(tx.SignaturesMap[0]) == 1 {
		sig00 = tx.SignaturesMap[0][0]
	}
	cust := st.custodian
	if sig00 != nil && cust != nil {
		f.Deposit = cust.Custodian.PublicSpendKey.Verify(hash, *sig00)
	}
	if cust != nil && len(tx.Extra) >= 64 {
		var sig crypto.Signature
		copy(sig[:], tx.Extra[:64])
		f.Claim = cust.Custodian.PublicSpendKey.Verify(crypto.Blake3Hash(tx.Extra[64:]), sig)
		var ps crypto.Signature
		copy(ps[:], tx.Extra[len(tx.Extra)-64:])
		f.CustPrev = cust.Custodian.PublicSpendKey.Verify(crypto.Blake3Hash(tx.Extra[:len(tx.Extra)-64]), ps)
	}
	if len(tx.Inputs) > 0 {
		if last := st.txs[tx.Inputs[0].Hash]; last != nil && sig00 != nil {
			signer := keyFromExtra(last.ver.Extra)
			f.Accept = signer.Verify(hash, *sig00)
			// the tail of validateNodeCancel
			if len(last.ver.Inputs) > 0 && len(tx.Outputs) == 2 && len(tx.Outputs[1].Keys) == 1 && len(tx.Extra) == 96 {
				li := last.ver.Inputs[0]
				if pit := st.txs[li.Hash]; pit != nil && int(li.Index) < len(pit.ver.Outputs) {
					pi := pit.ver.Outputs[li.Index]
					if len(pi.Keys) == 1 {
						var a crypto.Key
						copy(a[:], tx.Extra[64:])
						script := tx.Outputs[1]
						pan, _ := vh.Catch(func() {
							p := crypto.ViewGhostOutputKey(pi.Keys[0], &a, &pi.Mask, uint64(li.Index))
							t := crypto.ViewGhostOutputKey(script.Keys[0], &a, &script.Mask, 1)
							f.GhostSame = *p == *t
						})
						f.GhostPanic = pan
						f.Cancel = pi.Keys[0].Verify(hash, *sig00)
					}
				}
			}
		}
	}
	// custodian update nodes: per 353-byte record, payee and custodian signatures
	const rec = common.VerifValCustodianNodeExtraSize
	if len(tx.Extra) >= 128+rec && (len(tx.Extra)-128)%rec == 0 {
		body := tx.Extra[64 : len(tx.Extra)-64]
		for i := 0; i+rec <= len(body); i += rec {
			e := body[i : i+rec]
			var cs, ps crypto.Key
			copy(cs[:], e[1:33])
			copy(ps[:], e[65:97])
			eh := crypto.Blake3Hash(e[:161])
			var psig, csig crypto.Signature
			copy(psig[:], e[225:289])
			copy(csig[:], e[289:rec])
			f.CustNodes = append(f.CustNodes, [2]bool{ps.Verify(eh, psig), cs.Verify(eh, csig)})
		}
	}
	return f
}

// CoqCase builds the (VC ...) term: every view entry the validation of this
// transaction can read, the facts, and the observed decision class.
func CoqCase(ver *common.VersionedTransaction, st *Store, f *Facts, ts uint64, fork bool, obs string) string {
	tx := &ver.SignedTransaction
	hash := ver.PayloadHash()

	// only the entries the code under test actually read are sent: a model that
	// reads anything else sees "absent" and, if that matters, disagrees visibly
	var utxos []string
	seenSlot := map[string]bool{}
	for _, in := range tx.Inputs {
		k := slotKey(in.Hash, in.Index)
		if seenSlot[k] || !st.readUtxo[k] {
			continue
		}
		seenSlot[k] = true
		if u := st.peekUTXO(in.Hash, in.Index); u != nil {
			utxos = append(utxos, "("+hN(in.Hash)+", "+vh.ZU(uint64(in.Index))+", "+coqUtxo(u)+")")
		}
	}
	var txs []string
	for _, h := range st.readTxOrder {
		if s := st.txs[h]; s != nil {
			txs = append(txs, "("+hN(h)+", "+vh.App("Build_stx", coqTx(&s.ver.SignedTransaction, s.ver.PayloadHash(), st, false),
				hN(s.ver.PayloadHash()), vh.Bool(s.final))+")")
		}
	}
	depLock := hN(crypto.Hash{})
	if st.readDepLock {
		depLock = hN(st.deposit)
	}
	mint := vh.None("(Z * Z * N)")
	if m := st.mint; m != nil && st.readMint {
		mint = vh.Some("(" + vh.ZU(m.Batch) + ", " + amtZ(m.Amount) + ", " + hN(m.Transaction) + ")")
	}
	var nodes []string
	if st.readNodes {
		for _, n := range st.nodes {
			nodes = append(nodes, vh.App("Build_node", kN(n.Signer.PublicSpendKey), kN(n.Payee.PublicSpendKey), vh.ZI(stateCode(n.State)), hN(n.Transaction)))
		}
	}
	cust := vh.None("custodian")
	if c := st.custodian; c != nil && st.readCust {
		ns := make([]string, len(c.Nodes))
		for i, n := range c.Nodes {
			ns[i] = "(" + addrTerm(n.Custodian) + ", " + addrTerm(n.Payee) + ")"
		}
		cust = vh.Some(vh.App("Build_custodian", addrTerm(*c.Custodian), vh.List(ns, "(addr * addr)")))
	}
	var assets []string
	if a := st.assets[tx.Asset]; a != nil && st.readAsset {
		assets = append(assets, "("+hN(tx.Asset)+", ("+hN(a.asset.Chain)+", "+vh.Bytes([]byte(a.asset.AssetKey))+", "+vh.Z(a.balance)+"))")
	}
	bad := make([]string, len(f.BadKeys))
	for i, k := range f.BadKeys {
		bad[i] = kN(k)
	}
	sf := []string{vh.Bool(f.Agg), vh.Bool(f.Deposit), vh.Bool(f.Claim), vh.Bool(f.Accept), vh.Bool(f.Cancel), vh.Bool(f.CustPrev)}
	ghost := vh.Ok(vh.Bool(f.GhostSame))
	if f.GhostPanic {
		ghost = vh.Pan("bool")
	}
	cn := make([]string, len(f.CustNodes))
	for i, p := range f.CustNodes {
		cn[i] = "(" + vh.Bool(p[0]) + ", " + vh.Bool(p[1]) + ")"
	}
	return vh.App("VC", vh.List(utxos, "(N * Z * utxo)"), vh.List(txs, "(N * stx)"), depLock, mint,
		vh.List(nodes, "node"), cust, vh.List(assets, "(N * (N * bytes * Z))"), vh.Bool(!st.ghostErr),
		vh.List(bad, "N"), vh.List(sf, "bool"), ghost, vh.List(cn, "(bool * bool)"),
		hN(hash), vh.ZU(ts), vh.Bool(fork), coqTx(tx, hash, st, true), obs)
}
