package valsim

import (
	"crypto/sha256"
	"encoding/hex"
	"fmt"
	"math/big"
	"os"

	"github.com/MixinNetwork/mixin/common"
	"github.com/MixinNetwork/mixin/crypto"
	"github.com/MixinNetwork/mixin/storage"
	"verifharness/vh"
)

// Real-store mode: a temp-dir storage.BadgerStore is loaded with a genesis and a few
// transfers, every one validated against that store and written through the real API
// (Validate -> LockUTXOs -> WriteTransaction -> WriteSnapshot).  Test transactions are
// then validated with the REAL store as DataStore, while the model and the oracle use
// the "true view": the outputs created by the transaction bodies the harness wrote.
// A store that resolves an input slot to something that was never created is therefore
// both a model mismatch and an oracle failure.

type BadgerSpec struct {
	Node    string   `json:"node"`    // snapshot node id
	Genesis []string `json:"genesis"` // genesis transactions (the last one carries the node accept output)
	Steps   []string `json:"steps"`   // signed transfers, in the order they were finalized
}

type badgerEnv struct {
	store *storage.BadgerStore
	dir   string
	view  View
}

var badgerEnvs = map[string]*badgerEnv{}

func specKey(s *BadgerSpec) string {
	sum := sha256.Sum256([]byte(mustJSON(s)))
	return hex.EncodeToString(sum[:])
}

func snapshotFor(node crypto.Hash, topo, ts uint64, ver *common.VersionedTransaction) *common.SnapshotWithTopologicalOrder {
	snap := &common.SnapshotWithTopologicalOrder{
		Snapshot: &common.Snapshot{Version: common.SnapshotVersionCommonEncoding, NodeId: node, RoundNumber: 0,
			Timestamp: ts, Transactions: []crypto.Hash{ver.PayloadHash()}},
		TopologicalOrder: topo,
	}
	snap.Hash = snap.PayloadHash()
	return snap
}

const badgerEpoch = uint64(1700000000000000000)

// badgerFor builds (once per spec) the real store and the true view.
func badgerFor(spec *BadgerSpec) (*badgerEnv, error) {
	key := specKey(spec)
	if e := badgerEnvs[key]; e != nil {
		return e, nil
	}
	base := ""
	if fi, err := os.Stat("/dev/shm"); err == nil && fi.IsDir() {
		base = "/dev/shm"
	}
	dir, err := os.MkdirTemp(base, "valsim-badger-")
	if err != nil {
		return nil, err
	}
	store, err := storage.NewBadgerStore(nil, dir)
	if err != nil {
		os.RemoveAll(dir)
		return nil, err
	}
	env := &badgerEnv{store: store, dir: dir}
	badgerEnvs[key] = env
	node := hash32(spec.Node)

	var written []*common.VersionedTransaction
	var snaps []*common.SnapshotWithTopologicalOrder
	var gens []*common.VersionedTransaction
	for i, gh := range spec.Genesis {
		ver, err := common.UnmarshalVersionedTransaction(hx(gh))
		if err != nil {
			return nil, err
		}
		gens = append(gens, ver)
		snaps = append(snaps, snapshotFor(node, uint64(i), badgerEpoch+uint64(i), ver))
	}
	if err := store.LoadGenesis(nil, snaps, gens); err != nil {
		return nil, fmt.Errorf("LoadGenesis: %v", err)
	}
	if err := store.StartNewRound(node, 0, nil, badgerEpoch); err != nil {
		return nil, fmt.Errorf("StartNewRound: %v", err)
	}
	written = append(written, gens...)
	spentBy := map[string]crypto.Hash{}
	for k, sh := range spec.Steps {
		ver, err := common.UnmarshalVersionedTransaction(hx(sh))
		if err != nil {
			return nil, err
		}
		ts := badgerEpoch + uint64(len(gens)+k)
		if err := ver.Validate(store, ts, false); err != nil {
			return nil, fmt.Errorf("step %d does not validate on the real store: %v", k, err)
		}
		h := ver.PayloadHash()
		if err := store.LockUTXOs(ver.Inputs, h, false); err != nil {
			return nil, fmt.Errorf("step %d LockUTXOs: %v", k, err)
		}
		if err := store.WriteTransaction(ver); err != nil {
			return nil, fmt.Errorf("step %d WriteTransaction: %v", k, err)
		}
		if err := store.WriteSnapshot(snapshotFor(node, uint64(len(gens)+k), ts, ver), nil); err != nil {
			return nil, fmt.Errorf("step %d WriteSnapshot: %v", k, err)
		}
		for _, in := range ver.Inputs {
			spentBy[slotKey(in.Hash, in.Index)] = h
		}
		written = append(written, ver)
	}

	// the true view, from the bodies written (never from store reads)
	total := new(big.Int)
	for _, ver := range written {
		env.view.Txs = append(env.view.Txs, TxRec{Hex: hex.EncodeToString(ver.Marshal()), Final: true})
		for _, u := range ver.UnspentOutputs() {
			if sp, ok := spentBy[slotKey(u.Hash, u.Index)]; ok {
				u.LockHash = sp
			}
			env.view.Utxos = append(env.view.Utxos, hex.EncodeToString(u.Marshal()))
		}
	}
	for _, g := range gens {
		for _, o := range g.Outputs {
			total.Add(total, common.VerifIntegerBig(o.Amount))
		}
		if o := g.Outputs[0]; o.Type == common.OutputTypeNodeAccept && len(g.Extra) >= 64 {
			env.view.Nodes = append(env.view.Nodes, NodeRec{Signer: hex.EncodeToString(g.Extra[:32]), Payee: hex.EncodeToString(g.Extra[32:64]),
				State: common.NodeStateAccepted, Tx: g.PayloadHash().String()})
		}
	}
	env.view.Assets = []AssetRec{{Id: common.XINAssetId.String(), Chain: common.XINAsset.Chain.String(), Key: common.XINAsset.AssetKey, Balance: total.String()}}
	return env, nil
}

// CloseAll closes and removes every real store of this run.
func CloseAll() {
	for k, e := range badgerEnvs {
		vh.Catch(func() { e.store.Close() })
		os.RemoveAll(e.dir)
		delete(badgerEnvs, k)
	}
}

// GenerateBadger builds one real-store history and the directed test transactions
// over it: real slots, never-created slots whose index is congruent to a real one
// modulo 128 / 256 / 512 or lies just past the output count, up to InputIndexLimit,
// alone and next to the real slot, duplicates, and a spent slot.
func GenerateBadger(r *vh.Rand) []Case {
	type owned struct {
		hash   crypto.Hash
		index  uint
		amount *big.Int
		priv   crypto.Key
		nouts  int
	}
	mkOut := func(a *big.Int) (*common.Output, crypto.Key) {
		kp := newKP(r)
		k := kp.pub
		return &common.Output{Type: common.OutputTypeScript, Amount: integer(a), Script: common.NewThresholdScript(1),
			Mask: newKP(r).pub, Keys: []*crypto.Key{&k}}, kp.priv
	}
	spec := &BadgerSpec{Node: randHash(r).String()}

	g := common.NewTransactionV5(common.XINAssetId)
	g.Inputs = []*common.Input{{Genesis: []byte("valsim-genesis")}}
	ng := r.Range(4, 7)
	var gp []crypto.Key
	for i := 0; i < ng; i++ {
		o, p := mkOut(xinAmount(int64(r.Range(10, 5000))))
		g.Outputs = append(g.Outputs, o)
		gp = append(gp, p)
	}
	gv := g.AsVersioned()
	acc := common.NewTransactionV5(common.XINAssetId)
	acc.Inputs = []*common.Input{{Genesis: []byte("valsim-genesis-node")}}
	acc.Outputs = []*common.Output{{Type: common.OutputTypeNodeAccept, Amount: integer(xinAmount(13439)), Keys: []*crypto.Key{}}}
	ks, kp := newKP(r).pub, newKP(r).pub
	acc.Extra = append(append([]byte{}, ks[:]...), kp[:]...)
	av := acc.AsVersioned()
	spec.Genesis = []string{hex.EncodeToString(gv.Marshal()), hex.EncodeToString(av.Marshal())}

	signOne := func(tx *common.Transaction, privs []crypto.Key) *common.VersionedTransaction {
		ver := tx.AsVersioned()
		h := ver.PayloadHash()
		for _, p := range privs {
			s := p.Sign(h)
			ver.SignaturesMap = append(ver.SignaturesMap, map[uint16]*crypto.Signature{0: &s})
		}
		return ver
	}
	var pool []owned
	// two finalized transfers spending genesis outputs 0 and 1
	for s := 0; s < 2; s++ {
		tx := common.NewTransactionV5(common.XINAssetId)
		tx.AddInput(gv.PayloadHash(), uint(s))
		parts := (&World{r: r}).split(common.VerifIntegerBig(g.Outputs[s].Amount), r.Range(2, 4))
		var ps []crypto.Key
		for _, a := range parts {
			o, p := mkOut(a)
			tx.Outputs = append(tx.Outputs, o)
			ps = append(ps, p)
		}
		ver := signOne(tx, []crypto.Key{gp[s]})
		spec.Steps = append(spec.Steps, hex.EncodeToString(ver.Marshal()))
		for i, a := range parts {
			pool = append(pool, owned{ver.PayloadHash(), uint(i), a, ps[i], len(parts)})
		}
	}
	for i := 2; i < ng; i++ {
		pool = append(pool, owned{gv.PayloadHash(), uint(i), common.VerifIntegerBig(g.Outputs[i].Amount), gp[i], ng})
	}

	var out []Case
	txAsset := common.XINAssetId
	emit := func(kind string, slots []owned, idx []uint, total *big.Int) {
		tx := common.NewTransactionV5(txAsset)
		var privs []crypto.Key
		for j, o := range slots {
			tx.Inputs = append(tx.Inputs, &common.Input{Hash: o.hash, Index: idx[j]})
			privs = append(privs, o.priv)
		}
		for _, a := range (&World{r: r}).split(total, r.Range(1, 2)) {
			o, _ := mkOut(a)
			tx.Outputs = append(tx.Outputs, o)
		}
		ver := signOne(tx, privs)
		out = append(out, Case{Kind: "badger/" + kind, Badger: spec, Tx: hex.EncodeToString(ver.Marshal()),
			Ts: badgerEpoch + 100, Fork: false})
	}
	twice := func(a *big.Int) *big.Int { return new(big.Int).Lsh(a, 1) }
	for n, o := range pool {
		if n >= 4 {
			break
		}
		emit("real-slot", []owned{o}, []uint{o.index}, o.amount)
		for _, d := range []uint{128, 256, 257, 512, 768} {
			if o.index+d <= common.InputIndexLimit {
				emit(fmt.Sprintf("alias+%d", d), []owned{o}, []uint{o.index + d}, o.amount)
				emit(fmt.Sprintf("real-and-alias+%d", d), []owned{o, o}, []uint{o.index, o.index + d}, twice(o.amount))
			}
		}
		emit("index-limit", []owned{o}, []uint{common.InputIndexLimit}, o.amount)
		emit("just-past-count", []owned{o}, []uint{uint(o.nouts)}, o.amount)
		emit("real-and-just-past", []owned{o, o}, []uint{o.index, uint(o.nouts)}, twice(o.amount))
		emit("duplicate", []owned{o, o}, []uint{o.index, o.index}, twice(o.amount))
	}
	if len(pool) >= 2 {
		a, b := pool[0], pool[len(pool)-1]
		emit("two-real-slots", []owned{a, b}, []uint{a.index, b.index}, new(big.Int).Add(a.amount, b.amount))
	}
	// the real store holds XIN outputs only: a transaction of another asset spending them
	for _, a := range []crypto.Hash{common.BitcoinAssetId, randHash(r)} {
		txAsset = a
		o := pool[r.Intn(len(pool))]
		emit("cross-asset", []owned{o}, []uint{o.index}, o.amount)
	}
	txAsset = common.XINAssetId
	spent := owned{gv.PayloadHash(), 0, common.VerifIntegerBig(g.Outputs[0].Amount), gp[0], ng}
	emit("spent-slot", []owned{spent}, []uint{0}, spent.amount)
	emit("spent-slot-alias+256", []owned{spent}, []uint{256}, spent.amount)
	return out
}
