// Package valsim is the harness library shared by the C01 and C05 checks: an
// in-memory common.DataStore built from a self-contained JSON view, the
// projection of a decoded transaction / view / signature facts to the Coq case
// of coq/Run/ValCase.v, the runner that calls the real
// (*VersionedTransaction).Validate under recover, and the generators.
package valsim

import (
	"encoding/hex"
	"fmt"
	"math/big"

	"github.com/MixinNetwork/mixin/common"
	"github.com/MixinNetwork/mixin/crypto"
)

// ---- self-contained JSON form of a store view -----------------------------------

type TxRec struct {
	Hex   string `json:"hex"`
	Final bool   `json:"final"`
	At    string `json:"at,omitempty"` // stored under this hash instead of its payload hash
}

type MintRec struct {
	Batch  uint64 `json:"batch"`
	Amount string `json:"amount"` // units, decimal
	Tx     string `json:"tx"`
}

type NodeRec struct {
	Signer string `json:"signer"` // public spend key
	Payee  string `json:"payee"`
	State  string `json:"state"`
	Tx     string `json:"tx"`
}

type CustNodeRec struct {
	CS, CV, PS, PV string
}

type CustRec struct {
	Spend string        `json:"spend"`
	View  string        `json:"view"`
	Nodes []CustNodeRec `json:"nodes"`
}

type AssetRec struct {
	Id      string `json:"id"`
	Chain   string `json:"chain"`
	Key     string `json:"key"`
	Balance string `json:"balance"` // units, decimal, may be negative in an inconsistent view
}

type View struct {
	Utxos       []string   `json:"utxos"` // hex of UTXOWithLock.Marshal()
	Txs         []TxRec    `json:"txs"`
	DepositLock string     `json:"deposit_lock,omitempty"`
	Mint        *MintRec   `json:"mint,omitempty"`
	Nodes       []NodeRec  `json:"nodes"`
	Custodian   *CustRec   `json:"custodian,omitempty"`
	Assets      []AssetRec `json:"assets"`
	GhostErr    bool       `json:"ghost_err,omitempty"`
}

type Case struct {
	Kind string   `json:"kind"`
	Muts []string `json:"muts,omitempty"` // mutations applied by the generator (labels only)
	View View     `json:"view"`
	Tx   string   `json:"tx"` // hex of the full (signed) encoding
	Ts   uint64   `json:"ts"`
	Fork bool     `json:"fork"`
	Twin bool     `json:"twin,omitempty"` // the fork-flipped twin of a generated case
	// real-store mode: the history replayed into a temp-dir storage.BadgerStore; View is
	// then ignored and recomputed from these bodies
	Badger *BadgerSpec `json:"badger,omitempty"`
}

// ---- the fake store ----------------------------------------------------------------

type storedTx struct {
	ver   *common.VersionedTransaction
	final bool
	at    crypto.Hash
}

type assetEntry struct {
	asset   *common.Asset
	balance *big.Int
}

type Store struct {
	utxoBytes map[string][]byte
	utxoOrder []string
	txs       map[crypto.Hash]*storedTx
	txOrder   []crypto.Hash
	deposit   crypto.Hash
	mint      *common.MintDistribution
	nodes     []*common.Node
	custodian *common.CustodianUpdateRequest
	assets    map[crypto.Hash]*assetEntry
	assetIds  []crypto.Hash
	ghostErr  bool
	Reads     int // number of store calls made by the code under test
	// what the code under test actually read (the model case carries exactly these entries)
	readUtxo                                              map[string]bool
	readTx                                                map[crypto.Hash]bool
	readTxOrder                                           []crypto.Hash
	readNodes, readCust, readAsset, readMint, readDepLock bool
}

func hx(s string) []byte {
	b, err := hex.DecodeString(s)
	if err != nil {
		panic(err)
	}
	return b
}

func hash32(s string) (h crypto.Hash) {
	copy(h[:], hx(s))
	return
}

func key32(s string) (k crypto.Key) {
	copy(k[:], hx(s))
	return
}

func slotKey(h crypto.Hash, i uint) string { return fmt.Sprintf("%x:%d", h[:], i) }

// the address the storage layer derives for a node from its public spend key
func nodeAddress(spend crypto.Key) common.Address {
	pv := spend.DeterministicHashDerive()
	return common.Address{PrivateViewKey: pv, PublicViewKey: pv.Public(), PublicSpendKey: spend}
}

func NewStore(v *View) (*Store, error) {
	s := &Store{utxoBytes: map[string][]byte{}, txs: map[crypto.Hash]*storedTx{}, assets: map[crypto.Hash]*assetEntry{},
		readUtxo: map[string]bool{}, readTx: map[crypto.Hash]bool{}}
	for _, uh := range v.Utxos {
		b := hx(uh)
		u, err := common.UnmarshalUTXO(b)
		if err != nil {
			return nil, err
		}
		k := slotKey(u.Hash, u.Index)
		if _, dup := s.utxoBytes[k]; !dup {
			s.utxoOrder = append(s.utxoOrder, k)
		}
		s.utxoBytes[k] = b
	}
	for _, tr := range v.Txs {
		ver, err := common.UnmarshalVersionedTransaction(hx(tr.Hex))
		if err != nil {
			return nil, err
		}
		at := ver.PayloadHash()
		if tr.At != "" {
			at = hash32(tr.At)
		}
		if _, dup := s.txs[at]; !dup {
			s.txOrder = append(s.txOrder, at)
		}
		s.txs[at] = &storedTx{ver: ver, final: tr.Final, at: at}
	}
	if v.DepositLock != "" {
		s.deposit = hash32(v.DepositLock)
	}
	if v.Mint != nil {
		amt, _ := new(big.Int).SetString(v.Mint.Amount, 10)
		s.mint = &common.MintDistribution{MintData: common.MintData{Group: "UNIVERSAL", Batch: v.Mint.Batch,
			Amount: common.VerifIntegerFromBig(amt)}, Transaction: hash32(v.Mint.Tx)}
	}
	for _, n := range v.Nodes {
		s.nodes = append(s.nodes, &common.Node{Signer: nodeAddress(key32(n.Signer)), Payee: nodeAddress(key32(n.Payee)),
			State: n.State, Transaction: hash32(n.Tx), Timestamp: 1})
	}
	if c := v.Custodian; c != nil {
		cur := &common.CustodianUpdateRequest{Custodian: &common.Address{PublicSpendKey: key32(c.Spend), PublicViewKey: key32(c.View)}}
		for _, n := range c.Nodes {
			cur.Nodes = append(cur.Nodes, &common.CustodianNode{
				Custodian: common.Address{PublicSpendKey: key32(n.CS), PublicViewKey: key32(n.CV)},
				Payee:     common.Address{PublicSpendKey: key32(n.PS), PublicViewKey: key32(n.PV)}})
		}
		s.custodian = cur
	}
	for _, a := range v.Assets {
		bal, ok := new(big.Int).SetString(a.Balance, 10)
		if !ok {
			return nil, fmt.Errorf("bad balance %s", a.Balance)
		}
		id := hash32(a.Id)
		if _, dup := s.assets[id]; !dup {
			s.assetIds = append(s.assetIds, id)
		}
		s.assets[id] = &assetEntry{asset: &common.Asset{Chain: hash32(a.Chain), AssetKey: a.Key}, balance: bal}
	}
	s.ghostErr = v.GhostErr
	return s, nil
}

// peek: what a read returns, without counting it as a read of the code under test
func (s *Store) peekUTXO(h crypto.Hash, i uint) *common.UTXOWithLock {
	b, ok := s.utxoBytes[slotKey(h, i)]
	if !ok {
		return nil
	}
	u, err := common.UnmarshalUTXO(b) // fresh key pointers on every read, like the Badger store
	if err != nil {
		panic(err)
	}
	return u
}

func (s *Store) ReadUTXOLock(h crypto.Hash, i uint) (*common.UTXOWithLock, error) {
	s.Reads++
	s.readUtxo[slotKey(h, i)] = true
	return s.peekUTXO(h, i), nil
}

func (s *Store) ReadTransaction(h crypto.Hash) (*common.VersionedTransaction, string, error) {
	s.Reads++
	if !s.readTx[h] {
		s.readTx[h] = true
		s.readTxOrder = append(s.readTxOrder, h)
	}
	st := s.txs[h]
	if st == nil {
		return nil, "", nil
	}
	if st.final {
		return st.ver, "f000000000000000000000000000000000000000000000000000000000000000", nil
	}
	return st.ver, "", nil
}

func (s *Store) ReadDepositLock(d *common.DepositData) (crypto.Hash, error) {
	s.Reads++
	s.readDepLock = true
	return s.deposit, nil
}

func (s *Store) ReadLastMintDistribution(batch uint64) (*common.MintDistribution, error) {
	s.Reads++
	s.readMint = true
	if s.mint == nil {
		return nil, nil
	}
	m := *s.mint
	return &m, nil
}

func (s *Store) LockUTXOs(inputs []*common.Input, tx crypto.Hash, fork bool) error { return nil }
func (s *Store) LockDepositInput(d *common.DepositData, tx crypto.Hash, fork bool) error {
	return nil
}
func (s *Store) LockMintInput(m *common.MintData, tx crypto.Hash, fork bool) error { return nil }

func (s *Store) LockGhostKeys(keys []*crypto.Key, tx crypto.Hash, fork bool) error {
	s.Reads++
	if s.ghostErr {
		return fmt.Errorf("ghost key locked")
	}
	return nil
}

func (s *Store) ReadAllNodes(ts uint64, withState bool) []*common.Node {
	s.Reads++
	s.readNodes = true
	out := make([]*common.Node, len(s.nodes))
	for i, n := range s.nodes {
		c := *n
		out[i] = &c
	}
	return out
}

func (s *Store) ReadCustodian(ts uint64) (*common.CustodianUpdateRequest, error) {
	s.Reads++
	s.readCust = true
	return s.custodian, nil
}

func (s *Store) ReadAssetWithBalance(id crypto.Hash) (*common.Asset, common.Integer, error) {
	s.Reads++
	s.readAsset = true
	a := s.assets[id]
	if a == nil {
		return nil, common.Zero, nil
	}
	return a.asset, common.VerifIntegerFromBig(a.balance), nil
}

var _ common.DataStore = (*Store)(nil)

// markRead makes the projection carry every entry of the true view the transaction
// names (used when the code under test read another store)
func (s *Store) markRead(ver *common.VersionedTransaction) {
	for _, in := range ver.Inputs {
		s.readUtxo[slotKey(in.Hash, in.Index)] = true
	}
	for _, h := range ver.References {
		if !s.readTx[h] {
			s.readTx[h] = true
			s.readTxOrder = append(s.readTxOrder, h)
		}
	}
	s.Reads++
}

// ---- the ledger invariants a reachable store satisfies (C05 quantifier) ----------------

// ViewConsistent reports whether the view satisfies the invariants assumed by
// the C05 theorem; the first violated one is named.
func (s *Store) ViewConsistent() (bool, string) {
	for _, k := range s.utxoOrder {
		u, _ := common.UnmarshalUTXO(s.utxoBytes[k])
		if u.Amount.Sign() <= 0 {
			return false, "utxo-amount"
		}
		st := s.txs[u.Hash]
		if st == nil || int(u.Index) >= len(st.ver.Outputs) || st.ver.Outputs[u.Index].Type != u.Type {
			return false, "utxo-tx"
		}
	}
	for _, h := range s.txOrder {
		if len(s.txs[h].ver.Outputs) == 0 {
			return false, "tx-no-output"
		}
	}
	for _, n := range s.nodes {
		switch n.State {
		case common.NodeStatePledging:
			st := s.txs[n.Transaction]
			if st == nil || st.ver.TransactionType() != common.TransactionTypeNodePledge {
				return false, "node-pledge-tx"
			}
		case common.NodeStateAccepted, common.NodeStateRemoved, common.NodeStateCancelled:
		default:
			return false, "node-state"
		}
	}
	if s.custodian == nil {
		return false, "no-custodian"
	}
	seen := map[string]bool{}
	for _, n := range s.custodian.Nodes {
		k := n.Custodian.String()
		if seen[k] {
			return false, "custodian-dup"
		}
		seen[k] = true
	}
	for _, id := range s.assetIds {
		if s.assets[id].balance.Sign() < 0 {
			return false, "balance"
		}
	}
	return true, ""
}
