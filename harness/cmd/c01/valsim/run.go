package valsim

import (
	"crypto/sha256"
	"encoding/hex"
	"encoding/json"
	"fmt"
	"math/big"
	"os"
	"path/filepath"
	"sort"
	"strings"

	"github.com/MixinNetwork/mixin/common"
	"verifharness/vh"
)

// Options selects which property's oracle judges the observation.
type Options struct {
	OracleC01 bool
	OracleC05 bool
	// RejectSample > 1: only one in RejectSample rejected cases is also evaluated by
	// the model (accepted and panicking cases always are); the oracle sees every case.
	RejectSample int
}

const (
	ClassAccept = "accept"
	ClassReject = "reject"
	ClassPanic  = "panic"
)

// Run decodes the case's transaction with the real decoder, validates it with
// the real Validate against the fake store under recover, records the model
// case and applies the oracle(s).
//
// Every case is evaluated under BOTH values of the fork flag (kernel/self.go validates
// finalized snapshots with fork = true): the twin runs the implementation and the
// oracles on the same transaction and view with the flag flipped; it is also sent to the
// model when its decision class differs from the primary's (otherwise oracle only).
func Run(c *vh.Ctx, cs Case, opt Options) {
	class := runOne(c, cs, opt, "")
	if class == "" {
		return
	}
	twin := cs
	twin.Fork = !cs.Fork
	twin.Twin = true
	runOne(c, twin, opt, class)
}

// runOne returns the observed decision class ("" when the transaction did not decode).
// primary != "" marks the fork twin of a case whose primary run had that class.
func runOne(c *vh.Ctx, cs Case, opt Options, primary string) string {
	var real common.DataStore
	if cs.Badger != nil {
		env, err := badgerFor(cs.Badger)
		if err != nil {
			panic(fmt.Sprintf("real-store history of case %s cannot be replayed: %v", cs.Kind, err))
		}
		cs.View = env.view
		real = env.store
	}
	st, err := NewStore(&cs.View)
	if err != nil {
		panic(fmt.Sprintf("bad view in case %s: %v", cs.Kind, err))
	}
	var ver *common.VersionedTransaction
	raw := hx(cs.Tx)
	pan, pv := vh.Catch(func() { ver, err = common.UnmarshalVersionedTransaction(raw) })
	if pan {
		// outside C05 (decoder totality is C06), but never silently dropped
		c.Fail("decoder-panic", fmt.Sprintf("UnmarshalVersionedTransaction panicked: %v", pv), cs)
		return ""
	}
	if err != nil {
		c.Count("undecodable")
		return ""
	}
	consistent, why := st.ViewConsistent()

	var verr error
	if real != nil {
		pan, pv = vh.Catch(func() { verr = ver.Validate(real, cs.Ts, cs.Fork) })
		st.markRead(ver)
	} else {
		pan, pv = vh.Catch(func() { verr = ver.Validate(st, cs.Ts, cs.Fork) })
	}
	class, obs := ClassAccept, vh.Ok("tt")
	if pan {
		class, obs = ClassPanic, vh.Pan("unit")
	} else if verr != nil {
		class, obs = ClassReject, vh.Err("unit")
	}
	reads := st.Reads
	if os.Getenv("VALSIM_DEBUG") != "" {
		fmt.Fprintf(os.Stderr, "%s %v: %s %v %v\n", cs.Kind, cs.Muts, class, verr, pv)
	}

	// the projection is computed on a freshly decoded copy so that caches set by
	// Validate cannot influence it
	ver2, _ := common.UnmarshalVersionedTransaction(raw)
	facts := computeFacts(ver2, st)
	term := CoqCase(ver2, st, facts, cs.Ts, cs.Fork, obs)

	if cs.Badger != nil {
		cs.View = View{}
	}
	sum := sha256.Sum256([]byte(mustJSON(cs)))
	kind := cs.Kind + "/" + class
	if !consistent {
		kind = cs.Kind + "/inconsistent-view/" + class
	}
	if primary != "" {
		// the fork twin: one distribution line per (fork value, class pair), model only on a class change
		kind = fmt.Sprintf("fork-twin(fork=%v)/%s->%s", cs.Fork, primary, class)
		if primary == class {
			term = ""
		}
	} else if len(cs.Muts) == 0 {
		c.Count("unmutated/" + class)
	}
	for _, m := range cs.Muts {
		if primary == "" {
			c.Count("mut:" + m + "/" + class)
		} else if primary != class {
			c.Count("mut:" + m + "/fork-changes-decision")
		}
	}
	if opt.RejectSample > 1 && class == ClassReject && int(sum[31])%opt.RejectSample != 0 {
		term = ""
	}
	c.Case(kind, hex.EncodeToString(sum[:12]), class == ClassAccept || reads > 0, cs, term)

	// the input stage alone does not refuse node-cancel typed transactions (Props/C05.v, ..._refuted)
	if ver2.TransactionType() == common.TransactionTypeNodeCancel && !pan {
		st2, _ := NewStore(&cs.View)
		var ierr error
		if p, _ := vh.Catch(func() { ierr = common.VerifValValidateInputs(ver2, st2, cs.Fork) }); !p && ierr == nil {
			c.Count("cancel-typed-passes-validateInputs/" + class)
		}
	}
	if opt.OracleC05 && pan && consistent {
		c.Fail("validate-panic", fmt.Sprintf("Validate panicked on a decodable transaction over a consistent view (%s): %v", cs.Kind, pv), cs)
	}
	if opt.OracleC05 && pan && !consistent {
		c.Count("panic-outside-quantifier/" + why)
	}
	if opt.OracleC01 && class == ClassAccept {
		if msg := conservation(ver2, st); msg != "" {
			c.Fail("conservation", msg, cs)
		}
	}
	return class
}

// LoadCorpus reads the static corpus cases (replay-format JSON files) of a property.
func LoadCorpus(property string) []Case {
	root := os.Getenv("VERIF_ROOT")
	if root == "" {
		return nil
	}
	files, _ := filepath.Glob(filepath.Join(root, "corpus", property, "*.json"))
	sort.Strings(files)
	var out []Case
	for _, f := range files {
		b, err := os.ReadFile(f)
		if err != nil {
			continue
		}
		var w struct {
			Case Case `json:"case"`
		}
		if json.Unmarshal(b, &w) == nil && w.Case.Tx != "" {
			w.Case.Kind = "corpus-file/" + strings.TrimSuffix(filepath.Base(f), ".json")
			w.Case.Muts = nil
			out = append(out, w.Case)
		}
	}
	return out
}

func mustJSON(v any) string {
	b, err := json.Marshal(v)
	if err != nil {
		panic(err)
	}
	return string(b)
}

// conservation is the C01 property text evaluated on the accepted transaction
// and the store records: every ordinary input is an existing output of the
// transaction's asset, no slot is counted twice, a mint / deposit input stands
// alone, sum(inputs) = sum(outputs) > 0 and every output amount is positive.
func conservation(ver *common.VersionedTransaction, st *Store) string {
	in := new(big.Int)
	seen := map[string]bool{}
	for i, inp := range ver.Inputs {
		if inp.Mint != nil || inp.Deposit != nil {
			if len(ver.Inputs) != 1 {
				return fmt.Sprintf("accepted with a mint/deposit input at %d among %d inputs", i, len(ver.Inputs))
			}
			if inp.Mint != nil {
				in.Add(in, common.VerifIntegerBig(inp.Mint.Amount))
			} else {
				in.Add(in, common.VerifIntegerBig(inp.Deposit.Amount))
			}
			continue
		}
		k := slotKey(inp.Hash, inp.Index)
		if seen[k] {
			return "accepted with the same output spent twice: " + k
		}
		seen[k] = true
		u := st.peekUTXO(inp.Hash, inp.Index)
		if u == nil {
			return "accepted with an input that is not an output in the store: " + k
		}
		if u.Asset != ver.Asset {
			return "accepted with an input of another asset: " + k
		}
		in.Add(in, common.VerifIntegerBig(u.Amount))
	}
	out := new(big.Int)
	for i, o := range ver.Outputs {
		a := common.VerifIntegerBig(o.Amount)
		if a.Sign() <= 0 {
			return fmt.Sprintf("accepted with non-positive output %d", i)
		}
		out.Add(out, a)
	}
	if in.Cmp(out) != 0 {
		return fmt.Sprintf("accepted with inputs %s units and outputs %s units", in, out)
	}
	if in.Sign() <= 0 {
		return "accepted with a non-positive total"
	}
	return ""
}
