package valsim

import (
	"encoding/hex"
	"math/big"

	"github.com/MixinNetwork/mixin/common"
	"github.com/MixinNetwork/mixin/crypto"
	"verifharness/vh"
)

type keypair struct{ priv, pub crypto.Key }

func newKP(r *vh.Rand) keypair {
	priv := crypto.NewKeyFromSeed(r.Bytes(64))
	return keypair{priv, priv.Public()}
}

func randHash(r *vh.Rand) (h crypto.Hash) {
	copy(h[:], r.Bytes(32))
	return
}

// an encoding that is not a curve point (CheckKey false)
func badPoint(r *vh.Rand) crypto.Key {
	for {
		var k crypto.Key
		copy(k[:], r.Bytes(32))
		if !k.CheckKey() {
			return k
		}
	}
}

type uinfo struct {
	u     *common.UTXOWithLock
	privs []crypto.Key // private key of Keys[i]
}

type custNode struct{ cs, cv, ps, pv keypair }

// World is one random ledger view together with the private keys the harness
// needs to build transactions that really pass.
type World struct {
	r        *vh.Rand
	View     View
	utxos    []*uinfo
	other    crypto.Hash
	pledge   *common.VersionedTransaction
	pledgeKP keypair // node signer of the pledging node
	payeeKP  keypair
	accept   *common.VersionedTransaction
	submit   *common.VersionedTransaction
	custS    keypair
	custV    keypair
	custN    []custNode
	mintB    uint64
	mintAmt  *big.Int
	Ts       uint64
	broken   string              // which invariant was deliberately violated ("" = consistent)
	prefer   func(*World) *draft // the builder whose validator reads the broken entry
	forced   *uinfo              // an output record the next transfer must spend
	plain    bool                // directed scenarios: no incidental variation in the builders
}

var ten8 = big.NewInt(100000000)
var step = big.NewInt(10000) // 0.0001 XIN in units

func xinAmount(x int64) *big.Int { return new(big.Int).Mul(big.NewInt(x), ten8) }

// amounts: 1 unit, around the storage step, around 2^64 steps, powers of two up to 2^520, ordinary
func regimeAmount(r *vh.Rand) *big.Int {
	switch r.Intn(12) {
	case 0:
		return big.NewInt(1)
	case 1:
		return big.NewInt(int64(r.Range(1, 20000)))
	case 2:
		v := new(big.Int).Lsh(big.NewInt(1), 64)
		v.Mul(v, step)
		return v.Add(v, big.NewInt(int64(r.Range(-2, 2))))
	case 3:
		v := new(big.Int).Lsh(big.NewInt(1), uint(r.Range(60, 520)))
		return v.Sub(v, big.NewInt(int64(r.Intn(2))))
	case 4:
		return xinAmount(int64(r.Range(1, 800000)))
	default:
		return new(big.Int).Add(r.Big(r.Range(1, 56)), big.NewInt(1))
	}
}

func integer(v *big.Int) common.Integer { return common.VerifIntegerFromBig(v) }

func (w *World) scriptOutput(typ uint8, amount *big.Int, nkeys, threshold int) (*common.Output, []crypto.Key) {
	o := &common.Output{Type: typ, Amount: integer(amount), Script: common.Script{common.OperatorCmp, common.OperatorSum, uint8(threshold)},
		Mask: newKP(w.r).pub, Keys: []*crypto.Key{}}
	var privs []crypto.Key
	for i := 0; i < nkeys; i++ {
		kp := newKP(w.r)
		k := kp.pub
		o.Keys = append(o.Keys, &k)
		privs = append(privs, kp.priv)
	}
	return o, privs
}

func (w *World) addSource(tx *common.Transaction, final bool, privs map[int][]crypto.Key, asUtxo bool) *common.VersionedTransaction {
	ver := tx.AsVersioned()
	w.View.Txs = append(w.View.Txs, TxRec{Hex: hex.EncodeToString(ver.Marshal()), Final: final})
	if asUtxo {
		for _, u := range ver.UnspentOutputs() {
			w.utxos = append(w.utxos, &uinfo{u: u, privs: privs[int(u.Index)]})
		}
	}
	return ver
}

func NewWorld(r *vh.Rand) *World {
	w := &World{r: r, Ts: uint64(1700000000000000000 + r.Intn(1000000))}
	w.other = []crypto.Hash{common.BitcoinAssetId, common.EthereumAssetId, randHash(r)}[r.Intn(3)]

	// funding transactions
	nf := r.Range(3, 5)
	for f := 0; f < nf; f++ {
		asset := common.XINAssetId
		if f%3 == 2 {
			asset = w.other
		}
		tx := common.NewTransactionV5(asset)
		tx.AddInput(randHash(r), uint(r.Intn(3)))
		privs := map[int][]crypto.Key{}
		no := r.Range(1, 4)
		for i := 0; i < no; i++ {
			typ := uint8(common.OutputTypeScript)
			if r.Chance(1, 8) {
				typ = common.OutputTypeNodeRemove
			}
			nk := r.Range(1, 3)
			th := r.Range(1, nk)
			if r.Chance(1, 12) {
				th = r.Range(0, nk+1)
			}
			if r.Chance(1, 30) {
				nk, th = 0, 0
			}
			o, p := w.scriptOutput(typ, regimeAmount(r), nk, th)
			tx.Outputs = append(tx.Outputs, o)
			privs[i] = p
		}
		w.addSource(tx, !r.Chance(1, 15), privs, true)
	}
	// a large XIN output so that big transfers, pledges and custodian fees can balance
	{
		tx := common.NewTransactionV5(common.XINAssetId)
		tx.AddInput(randHash(r), 0)
		privs := map[int][]crypto.Key{}
		for i, a := range []*big.Int{xinAmount(13439), xinAmount(int64(r.Range(800, 2000))), new(big.Int).Lsh(big.NewInt(1), 101)} {
			o, p := w.scriptOutput(common.OutputTypeScript, a, 1, 1)
			tx.Outputs = append(tx.Outputs, o)
			privs[i] = p
		}
		w.addSource(tx, true, privs, true)
	}

	// node pledge (its single input spends a one-key XIN output of a known transaction)
	w.pledgeKP, w.payeeKP = newKP(r), newKP(r)
	{
		src := common.NewTransactionV5(common.XINAssetId)
		src.AddInput(randHash(r), 0)
		o, _ := w.scriptOutput(common.OutputTypeScript, xinAmount(13439), 1, 1)
		src.Outputs = append(src.Outputs, o)
		sv := w.addSource(src, true, nil, false)

		tx := common.NewTransactionV5(common.XINAssetId)
		tx.AddInput(sv.PayloadHash(), 0)
		tx.Outputs = append(tx.Outputs, &common.Output{Type: common.OutputTypeNodePledge, Amount: integer(xinAmount(13439)), Keys: []*crypto.Key{}})
		tx.Extra = append(append([]byte{}, w.pledgeKP.pub[:]...), w.payeeKP.pub[:]...)
		w.pledge = w.addSource(tx, true, nil, true)
	}
	// an accepted node with its accept transaction
	acceptKP, acceptPayee := newKP(r), newKP(r)
	{
		tx := common.NewTransactionV5(common.XINAssetId)
		tx.AddInput(randHash(r), 0)
		tx.Outputs = append(tx.Outputs, &common.Output{Type: common.OutputTypeNodeAccept, Amount: integer(xinAmount(13439)), Keys: []*crypto.Key{}})
		tx.Extra = append(append([]byte{}, acceptKP.pub[:]...), acceptPayee.pub[:]...)
		w.accept = w.addSource(tx, true, nil, true)
	}
	// a finalized withdrawal submit
	{
		tx := common.NewTransactionV5(w.other)
		tx.AddInput(randHash(r), 0)
		tx.Outputs = append(tx.Outputs, &common.Output{Type: common.OutputTypeWithdrawalSubmit, Amount: integer(big.NewInt(5000)),
			Keys: []*crypto.Key{}, Withdrawal: &common.WithdrawalData{Address: "bc1qexample", Tag: "memo"}})
		w.submit = w.addSource(tx, !r.Chance(1, 10), nil, false)
	}

	// nodes
	na := r.Range(2, 6)
	for i := 0; i < na; i++ {
		st := []string{common.NodeStateAccepted, common.NodeStateAccepted, common.NodeStateRemoved, common.NodeStateCancelled}[r.Intn(4)]
		w.View.Nodes = append(w.View.Nodes, NodeRec{Signer: newKP(r).pub.String(), Payee: newKP(r).pub.String(), State: st, Tx: randHash(r).String()})
	}
	w.View.Nodes = append(w.View.Nodes, NodeRec{Signer: acceptKP.pub.String(), Payee: acceptPayee.pub.String(), State: common.NodeStateAccepted, Tx: w.accept.PayloadHash().String()})
	if r.Chance(2, 3) {
		w.View.Nodes = append(w.View.Nodes, NodeRec{Signer: w.pledgeKP.pub.String(), Payee: w.payeeKP.pub.String(), State: common.NodeStatePledging, Tx: w.pledge.PayloadHash().String()})
	}

	// custodian
	w.custS, w.custV = newKP(r), newKP(r)
	cr := &CustRec{Spend: w.custS.pub.String(), View: w.custV.pub.String()}
	for i := 0; i < 7; i++ {
		n := custNode{newKP(r), newKP(r), newKP(r), newKP(r)}
		w.custN = append(w.custN, n)
		cr.Nodes = append(cr.Nodes, CustNodeRec{n.cs.pub.String(), n.cv.pub.String(), n.ps.pub.String(), n.pv.pub.String()})
	}
	w.View.Custodian = cr

	// assets and the last mint
	w.View.Assets = append(w.View.Assets, AssetRec{Id: common.XINAssetId.String(), Chain: common.XINAsset.Chain.String(), Key: common.XINAsset.AssetKey, Balance: xinAmount(int64(r.Range(0, 700000))).String()})
	if r.Chance(3, 4) {
		w.View.Assets = append(w.View.Assets, AssetRec{Id: w.other.String(), Chain: w.other.String(), Key: "0xasset", Balance: big.NewInt(int64(r.Intn(1000000))).String()})
	}
	w.mintB = uint64(r.Range(1, 3000))
	w.mintAmt = xinAmount(int64(r.Range(1, 90)))
	if r.Chance(5, 6) {
		w.View.Mint = &MintRec{Batch: w.mintB, Amount: w.mintAmt.String(), Tx: randHash(r).String()}
	}

	// locks on some outputs
	for _, ui := range w.utxos {
		if r.Chance(1, 12) {
			ui.u.LockHash = randHash(r)
		}
	}
	return w
}

// Break deliberately violates one ledger invariant (cases outside the C05
// quantifier: they check that the model's Panic sites are the code's).
func (w *World) Break() {
	r := w.r
	switch r.Intn(10) {
	case 0: // an output record with amount zero
		ui := w.utxos[r.Intn(len(w.utxos))]
		ui.u.Amount = common.Zero
		w.forced = ui
		w.broken = "utxo-amount"
		w.prefer = (*World).transfer
	case 1: // output records whose transaction is unknown
		w.View.Txs = nil
		w.broken = "utxo-tx"
		w.prefer = []func(*World) *draft{(*World).nodeRemove, (*World).nodeAccept}[r.Intn(2)]
	case 2: // the pledge output recorded as an ordinary one-key script output (opens validateNodeCancel's tail)
		for _, ui := range w.utxos {
			if ui.u.Type == common.OutputTypeNodePledge {
				kp := newKP(r)
				k := kp.pub
				ui.u.Type = common.OutputTypeScript
				ui.u.Keys = []*crypto.Key{&k}
				ui.u.Script = common.NewThresholdScript(1)
				ui.u.Mask = newKP(r).pub
				ui.privs = []crypto.Key{kp.priv}
			}
		}
		w.ensurePledging()
		w.broken = "utxo-type"
		w.prefer = (*World).nodeCancel
	case 3: // pledging node whose transaction is not stored (its output record stays)
		ph := hexOf(w.pledge.Marshal())
		var txs []TxRec
		for _, t := range w.View.Txs {
			if t.Hex != ph {
				txs = append(txs, t)
			}
		}
		w.View.Txs = txs
		w.ensurePledging()
		w.broken = "node-pledge-tx"
		w.prefer = (*World).nodeAccept
	case 4: // pledging node pointing at a stored transaction that is not pledge-typed (it has a mint input)
		w.dropPledging(false)
		tx := common.NewTransactionV5(common.XINAssetId)
		tx.AddUniversalMintInput(1, integer(xinAmount(13439)))
		tx.Outputs = append(tx.Outputs, &common.Output{Type: common.OutputTypeNodePledge, Amount: integer(xinAmount(13439)), Keys: []*crypto.Key{}})
		tx.Extra = append([]byte{}, w.pledge.Extra...)
		old := w.pledge.PayloadHash()
		var us []*uinfo
		for _, ui := range w.utxos {
			if ui.u.Hash != old {
				us = append(us, ui)
			}
		}
		w.utxos = us
		w.pledge = w.addSource(tx, true, nil, true)
		w.ensurePledging()
		w.broken = "node-pledge-type"
		w.prefer = []func(*World) *draft{(*World).nodeAccept, (*World).nodeCancel}[r.Intn(2)]
	case 5: // a node in a state the code does not know
		n := NodeRec{Signer: newKP(r).pub.String(), Payee: newKP(r).pub.String(), State: "RESIGNED", Tx: randHash(r).String()}
		if r.Bool() {
			w.View.Nodes = append([]NodeRec{n}, w.View.Nodes...)
		} else {
			w.View.Nodes = append(w.View.Nodes, n)
		}
		w.broken = "node-state"
		w.prefer = []func(*World) *draft{(*World).nodeAccept, (*World).nodeCancel, (*World).nodePledge}[r.Intn(3)]
	case 6:
		w.View.Custodian = nil
		w.broken = "no-custodian"
		w.prefer = []func(*World) *draft{(*World).deposit, (*World).withdrawalClaim, (*World).custodianUpdate}[r.Intn(3)]
	case 7:
		w.View.Custodian.Nodes = append(w.View.Custodian.Nodes, w.View.Custodian.Nodes[0])
		w.broken = "custodian-dup"
		w.prefer = (*World).custodianUpdate
	case 8:
		for i := range w.View.Assets {
			w.View.Assets[i].Balance = "-" + w.View.Assets[i].Balance + "1"
		}
		w.broken = "balance"
		w.prefer = (*World).deposit
	case 9: // a stored transaction without outputs, in place of the withdrawal submit
		tx := common.NewTransactionV5(w.other)
		tx.AddInput(randHash(r), 0)
		w.submit = w.addSource(tx, true, nil, false)
		w.broken = "tx-no-output"
		w.prefer = (*World).withdrawalClaim
	}
}

// fund adds a finalized transaction of the given asset with one-key outputs of exactly
// these amounts and returns their (unlocked) output records in order
func (w *World) fund(asset crypto.Hash, amounts []*big.Int) []*uinfo {
	tx := common.NewTransactionV5(asset)
	tx.AddInput(randHash(w.r), 0)
	privs := map[int][]crypto.Key{}
	for i, a := range amounts {
		o, p := w.scriptOutput(common.OutputTypeScript, a, 1, 1)
		tx.Outputs = append(tx.Outputs, o)
		privs[i] = p
	}
	n := len(w.utxos)
	w.addSource(tx, true, privs, true)
	return append([]*uinfo{}, w.utxos[n:]...)
}

func (w *World) unlockAll() {
	for _, ui := range w.utxos {
		ui.u.LockHash = crypto.Hash{}
	}
}

func hexOf(b []byte) string { return hex.EncodeToString(b) }

// ensurePledging makes the last node entry the pledging node of w.pledge
func (w *World) ensurePledging() {
	w.dropPledging(false)
	w.View.Nodes = append(w.View.Nodes, NodeRec{Signer: w.pledgeKP.pub.String(), Payee: w.payeeKP.pub.String(),
		State: common.NodeStatePledging, Tx: w.pledge.PayloadHash().String()})
}

func (w *World) dropPledging(keepOthers bool) {
	var ns []NodeRec
	for _, n := range w.View.Nodes {
		if n.State == common.NodeStatePledging {
			continue
		}
		ns = append(ns, n)
	}
	w.View.Nodes = ns
}

// Snapshot returns the JSON view (output records are serialized now, after
// any lock / break edits).
func (w *World) Snapshot() View {
	v := w.View
	v.Utxos = nil
	for _, ui := range w.utxos {
		v.Utxos = append(v.Utxos, hex.EncodeToString(ui.u.Marshal()))
	}
	return v
}

func signWith(k crypto.Key, h crypto.Hash) crypto.Signature { return k.Sign(h) }
