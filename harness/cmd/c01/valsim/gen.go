package valsim

import (
	"encoding/hex"
	"fmt"
	"math/big"
	"sort"

	"github.com/MixinNetwork/mixin/common"
	"github.com/MixinNetwork/mixin/crypto"
	"verifharness/vh"
)

// draft: an unsigned transaction plus what the harness needs to authorize it
type draft struct {
	kind   string
	tx     *common.Transaction
	ins    []*uinfo                                           // per input: the spent output (nil for special / unknown)
	maps   func(h crypto.Hash) []map[uint16]*crypto.Signature // overrides the default per-input signing
	noSigs bool                                               // node remove: no signature maps at all
	// sigShape != "": the single signature map sigs[0] is reshaped: its one valid
	// signature sits under another index, or the map has two / zero entries, or is nil
	sigShape string
}

var boundaryExtra = []int{0, 1, 31, 32, 33, 63, 64, 65, 95, 96, 97, 128, 129, 160, 161, 255, 256, 257}

func (w *World) spendable(asset crypto.Hash) []*uinfo {
	var l []*uinfo
	for _, ui := range w.utxos {
		if ui.u.Asset == asset && (ui.u.Type == common.OutputTypeScript || ui.u.Type == common.OutputTypeNodeRemove) {
			l = append(l, ui)
		}
	}
	return l
}

func (w *World) pick(asset crypto.Hash, n int) []*uinfo {
	l := w.spendable(asset)
	w.r.Fork("shuffle") // keep the stream position independent of list sizes
	for i := len(l) - 1; i > 0; i-- {
		j := w.r.Intn(i + 1)
		l[i], l[j] = l[j], l[i]
	}
	if len(l) > n {
		l = l[:n]
	}
	return l
}

func sumOf(l []*uinfo) *big.Int {
	s := new(big.Int)
	for _, ui := range l {
		s.Add(s, common.VerifIntegerBig(ui.u.Amount))
	}
	return s
}

// split total into k positive parts (k reduced if total is too small)
func (w *World) split(total *big.Int, k int) []*big.Int {
	if total.Cmp(big.NewInt(int64(k))) < 0 {
		k = 1
	}
	parts := []*big.Int{}
	rest := new(big.Int).Set(total)
	for i := 0; i < k-1; i++ {
		max := new(big.Int).Sub(rest, big.NewInt(int64(k-1-i)))
		p := new(big.Int).Add(w.r.Big(max.BitLen()), big.NewInt(1))
		if p.Cmp(max) > 0 {
			p.Set(max)
		}
		if p.Sign() <= 0 {
			p.SetInt64(1)
		}
		parts = append(parts, p)
		rest = new(big.Int).Sub(rest, p)
	}
	return append(parts, rest)
}

func (w *World) addInputs(tx *common.Transaction, l []*uinfo) {
	for _, ui := range l {
		tx.AddInput(ui.u.Hash, ui.u.Index)
	}
}

func (w *World) payOut(tx *common.Transaction, total *big.Int, k int) {
	for _, p := range w.split(total, k) {
		nk := w.r.Range(1, 3)
		o, _ := w.scriptOutput(common.OutputTypeScript, p, nk, w.r.Range(1, nk))
		tx.Outputs = append(tx.Outputs, o)
	}
}

// ---- builders of transactions that pass on a consistent view -------------------------

func (w *World) transfer() *draft {
	asset := common.XINAssetId
	if w.r.Chance(1, 3) {
		asset = w.other
	}
	l := w.pick(asset, w.r.Range(1, 3))
	if len(l) == 0 {
		l = w.pick(common.XINAssetId, 1)
		asset = common.XINAssetId
	}
	if f := w.forced; f != nil && (f.u.Type == common.OutputTypeScript || f.u.Type == common.OutputTypeNodeRemove) {
		asset = f.u.Asset
		l = []*uinfo{f}
		for _, ui := range w.pick(asset, 2) {
			if ui != f {
				l = append(l, ui)
			}
		}
		if w.r.Bool() {
			l[0], l[len(l)-1] = l[len(l)-1], l[0]
		}
	}
	tx := common.NewTransactionV5(asset)
	w.addInputs(tx, l)
	total := sumOf(l)
	if total.Sign() == 0 {
		total = big.NewInt(1)
	}
	w.payOut(tx, total, w.r.Range(1, 3))
	if w.r.Chance(1, 3) {
		tx.Extra = w.r.Bytes(boundaryExtra[w.r.Intn(len(boundaryExtra))])
	}
	return &draft{kind: "script", tx: tx, ins: l}
}

// XIN transfer with a storage output (one key, script fffe40) and an extra near the allowance
func (w *World) storage() *draft {
	l := w.pick(common.XINAssetId, w.r.Range(1, 2))
	total := sumOf(l)
	tx := common.NewTransactionV5(common.XINAssetId)
	w.addInputs(tx, l)
	var a *big.Int
	switch w.r.Intn(8) {
	case 0:
		a = big.NewInt(9999)
	case 1:
		a = big.NewInt(10000)
	case 2:
		a = big.NewInt(int64(10000*w.r.Range(1, 4) + w.r.Intn(3)))
	case 3:
		a = big.NewInt(10000*4096 - int64(w.r.Intn(2)))
	case 4:
		a = new(big.Int).Mul(new(big.Int).Lsh(big.NewInt(1), 64), step)
		a.Add(a, big.NewInt(int64(w.r.Range(-1, 1))))
	case 5:
		a = new(big.Int).Lsh(big.NewInt(1), uint(w.r.Range(64, 300)))
	default:
		a = big.NewInt(int64(w.r.Range(1, 60000)))
	}
	if a.Cmp(total) > 0 && w.r.Chance(2, 3) {
		a = new(big.Int).Set(total) // keep it balanced when the inputs cannot cover the wished amount
	}
	typ := uint8(common.OutputTypeScript)
	so, _ := w.scriptOutput(typ, a, 1, 64)
	tx.Outputs = append(tx.Outputs, so)
	if rest := new(big.Int).Sub(total, a); rest.Sign() > 0 {
		w.payOut(tx, rest, w.r.Range(1, 2))
	}
	limit := int64(256)
	if a.Cmp(step) >= 0 {
		cells := new(big.Int).Div(a, step)
		if cells.Cmp(big.NewInt(4096)) >= 0 {
			limit = 4096 * 1024
		} else {
			limit = cells.Int64() * 1024
		}
	}
	n := int64(w.r.Range(0, 300))
	if limit <= 4096 {
		n = limit + int64(w.r.Range(-1, 1))
	} else if w.r.Chance(1, 4) {
		n = int64(w.r.Range(257, 3000))
	}
	tx.Extra = w.r.Bytes(int(n))
	return &draft{kind: "storage", tx: tx, ins: l}
}

func (w *World) mint() *draft {
	tx := common.NewTransactionV5(common.XINAssetId)
	batch := w.mintB + uint64(w.r.Range(0, 2))
	if w.r.Chance(1, 8) && w.mintB > 0 {
		batch = w.mintB - 1
	}
	amount := xinAmount(int64(w.r.Range(1, 90)))
	if w.r.Chance(1, 3) {
		amount = new(big.Int).Set(w.mintAmt)
	}
	tx.AddUniversalMintInput(batch, integer(amount))
	w.payOut(tx, amount, w.r.Range(1, 3))
	kp := newKP(w.r)
	return &draft{kind: "mint", tx: tx, ins: []*uinfo{nil}, maps: func(h crypto.Hash) []map[uint16]*crypto.Signature {
		s := kp.priv.Sign(h)
		return []map[uint16]*crypto.Signature{{0: &s}}
	}}
}

func (w *World) deposit() *draft {
	asset := w.other
	chain, key := w.other, "0xasset"
	if w.r.Chance(1, 4) {
		asset, chain, key = common.XINAssetId, common.XINAsset.Chain, common.XINAsset.AssetKey
	}
	tx := common.NewTransactionV5(asset)
	amount := regimeAmount(w.r)
	if w.plain || w.r.Chance(2, 3) {
		amount = big.NewInt(int64(w.r.Range(1, 100000)))
	}
	tx.AddDepositInput(&common.DepositData{Chain: chain, AssetKey: key, Transaction: hex.EncodeToString(w.r.Bytes(32)),
		Index: uint64(w.r.Intn(4)), Amount: integer(amount)})
	nk := w.r.Range(1, 3)
	o, _ := w.scriptOutput(common.OutputTypeScript, amount, nk, w.r.Range(1, nk))
	tx.Outputs = append(tx.Outputs, o)
	cust := w.custS
	return &draft{kind: "deposit", tx: tx, ins: []*uinfo{nil}, maps: func(h crypto.Hash) []map[uint16]*crypto.Signature {
		s := cust.priv.Sign(h)
		return []map[uint16]*crypto.Signature{{0: &s}}
	}}
}

func (w *World) withdrawalSubmit() *draft {
	asset := w.other
	if w.r.Chance(1, 3) {
		asset = common.XINAssetId
	}
	l := w.pick(asset, w.r.Range(1, 2))
	if len(l) == 0 {
		asset = common.XINAssetId
		l = w.pick(asset, 1)
	}
	total := sumOf(l)
	tx := common.NewTransactionV5(asset)
	w.addInputs(tx, l)
	parts := w.split(total, w.r.Range(1, 3))
	tx.Outputs = append(tx.Outputs, &common.Output{Type: common.OutputTypeWithdrawalSubmit, Amount: integer(parts[0]), Keys: []*crypto.Key{},
		Withdrawal: &common.WithdrawalData{Address: "addr" + hex.EncodeToString(w.r.Bytes(4)), Tag: ""}})
	for _, p := range parts[1:] {
		o, _ := w.scriptOutput(common.OutputTypeScript, p, 1, 1)
		tx.Outputs = append(tx.Outputs, o)
	}
	return &draft{kind: "withdrawal-submit", tx: tx, ins: l}
}

func (w *World) withdrawalClaim() *draft {
	l := w.pick(common.XINAssetId, w.r.Range(1, 2))
	total := sumOf(l)
	tx := common.NewTransactionV5(common.XINAssetId)
	w.addInputs(tx, l)
	fee := big.NewInt(10000)
	if w.r.Chance(1, 6) {
		fee = big.NewInt(9999)
	}
	if total.Cmp(fee) < 0 {
		fee = new(big.Int).Set(total)
	}
	tx.Outputs = append(tx.Outputs, &common.Output{Type: common.OutputTypeWithdrawalClaim, Amount: integer(fee), Keys: []*crypto.Key{}})
	if rest := new(big.Int).Sub(total, fee); rest.Sign() > 0 {
		w.payOut(tx, rest, w.r.Range(1, 2))
	}
	tx.References = []crypto.Hash{w.submit.PayloadHash()}
	data := w.r.Bytes([]int{0, 1, 32, 64, 65, 96, 97}[w.r.Intn(7)])
	sig := w.custS.priv.Sign(crypto.Blake3Hash(data))
	tx.Extra = append(sig[:], data...)
	if w.r.Chance(1, 8) {
		tx.Extra = tx.Extra[:[]int{0, 63, 64}[w.r.Intn(3)]]
	}
	return &draft{kind: "withdrawal-claim", tx: tx, ins: l}
}

func (w *World) nodePledge() *draft {
	var in *uinfo
	for _, ui := range w.spendable(common.XINAssetId) {
		if common.VerifIntegerBig(ui.u.Amount).Cmp(xinAmount(13439)) == 0 {
			in = ui
		}
	}
	if in == nil || w.r.Chance(1, 6) {
		in = w.pick(common.XINAssetId, 1)[0]
	}
	tx := common.NewTransactionV5(common.XINAssetId)
	w.addInputs(tx, []*uinfo{in})
	tx.Outputs = append(tx.Outputs, &common.Output{Type: common.OutputTypeNodePledge, Amount: in.u.Amount, Keys: []*crypto.Key{}})
	signer, payee := newKP(w.r).pub, newKP(w.r).pub
	if w.r.Chance(1, 8) && len(w.View.Nodes) > 0 { // a key already used by a node
		n := w.View.Nodes[w.r.Intn(len(w.View.Nodes))]
		signer = key32([]string{n.Signer, n.Payee}[w.r.Intn(2)])
	}
	if w.r.Chance(1, 12) {
		signer = badPoint(w.r)
	}
	tx.Extra = append(append([]byte{}, signer[:]...), payee[:]...)
	return &draft{kind: "node-pledge", tx: tx, ins: []*uinfo{in}}
}

func (w *World) pledgeUtxo() *uinfo {
	h := w.pledge.PayloadHash()
	for _, ui := range w.utxos {
		if ui.u.Hash == h {
			return ui
		}
	}
	return nil
}

func (w *World) nodeAccept() *draft {
	in := w.pledgeUtxo()
	tx := common.NewTransactionV5(common.XINAssetId)
	w.addInputs(tx, []*uinfo{in})
	tx.Outputs = append(tx.Outputs, &common.Output{Type: common.OutputTypeNodeAccept, Amount: in.u.Amount, Keys: []*crypto.Key{}})
	tx.Extra = append([]byte{}, w.pledge.Extra...)
	signer := w.pledgeKP
	if w.r.Chance(1, 8) {
		signer = newKP(w.r)
	}
	return &draft{kind: "node-accept", tx: tx, ins: []*uinfo{in}, maps: func(h crypto.Hash) []map[uint16]*crypto.Signature {
		s := signer.priv.Sign(h)
		return []map[uint16]*crypto.Signature{{0: &s}}
	}}
}

func (w *World) nodeCancel() *draft {
	in := w.pledgeUtxo()
	tx := common.NewTransactionV5(common.XINAssetId)
	w.addInputs(tx, []*uinfo{in})
	total := common.VerifIntegerBig(in.u.Amount)
	pct := new(big.Int).Div(total, big.NewInt(100))
	if pct.Sign() == 0 || w.r.Chance(1, 10) {
		pct = big.NewInt(1)
	}
	tx.Outputs = append(tx.Outputs, &common.Output{Type: common.OutputTypeNodeCancel, Amount: integer(pct), Keys: []*crypto.Key{}})
	if rest := new(big.Int).Sub(total, pct); rest.Sign() > 0 {
		o, _ := w.scriptOutput(common.OutputTypeScript, rest, 1, 1)
		if w.r.Chance(1, 10) {
			o.Mask = badPoint(w.r)
		}
		tx.Outputs = append(tx.Outputs, o)
	}
	a := newKP(w.r).priv // a private view key (canonical scalar)
	if w.r.Chance(1, 4) {
		copy(a[:], w.r.Bytes(32)) // usually not a canonical scalar: KeyMultPubPriv panics
	}
	tx.Extra = append(append([]byte{}, w.pledge.Extra...), a[:]...)
	d := &draft{kind: "node-cancel", tx: tx, ins: []*uinfo{in}}
	if len(in.privs) == 0 { // consistent view: the pledge output has no keys; give it a one-entry map anyway
		kp := newKP(w.r)
		d.maps = func(h crypto.Hash) []map[uint16]*crypto.Signature {
			s := kp.priv.Sign(h)
			return []map[uint16]*crypto.Signature{{0: &s}}
		}
	}
	return d
}

// node-cancel typed transaction over one ordinary signed script input: passes
// validateInputs (design note (a) is wrong), refused by validateNodeCancel
func (w *World) cancelOverScript() *draft {
	l := w.pick(common.XINAssetId, 1)
	total := sumOf(l)
	tx := common.NewTransactionV5(common.XINAssetId)
	w.addInputs(tx, l)
	pct := new(big.Int).Div(total, big.NewInt(100))
	if pct.Sign() == 0 {
		pct = big.NewInt(1)
	}
	tx.Outputs = append(tx.Outputs, &common.Output{Type: common.OutputTypeNodeCancel, Amount: integer(pct), Keys: []*crypto.Key{}})
	if rest := new(big.Int).Sub(total, pct); rest.Sign() > 0 {
		o, _ := w.scriptOutput(common.OutputTypeScript, rest, 1, 1)
		tx.Outputs = append(tx.Outputs, o)
	}
	a := newKP(w.r).priv
	tx.Extra = append(append([]byte{}, w.pledge.Extra...), a[:]...)
	return &draft{kind: "cancel-over-script", tx: tx, ins: l}
}

func (w *World) nodeRemove() *draft {
	var in *uinfo
	h := w.accept.PayloadHash()
	for _, ui := range w.utxos {
		if ui.u.Hash == h {
			in = ui
		}
	}
	tx := common.NewTransactionV5(common.XINAssetId)
	w.addInputs(tx, []*uinfo{in})
	o, _ := w.scriptOutput(common.OutputTypeNodeRemove, common.VerifIntegerBig(in.u.Amount), 1, 1)
	tx.Outputs = append(tx.Outputs, o)
	tx.Extra = append([]byte{}, w.accept.Extra...)
	return &draft{kind: "node-remove", tx: tx, ins: []*uinfo{in}, noSigs: w.r.Chance(3, 4)}
}

// F1 witness: node-remove typed transaction spending an ordinary script output, no signature maps
func (w *World) removeOverScript() *draft {
	l := w.pick(common.XINAssetId, 1)
	tx := common.NewTransactionV5(common.XINAssetId)
	w.addInputs(tx, l)
	o, _ := w.scriptOutput(common.OutputTypeNodeRemove, sumOf(l), 1, 1)
	tx.Outputs = append(tx.Outputs, o)
	return &draft{kind: "remove-over-script", tx: tx, ins: l, noSigs: w.r.Chance(2, 3)}
}

func (w *World) custodianUpdate() *draft {
	r := w.r
	newCust := r.Chance(1, 3)
	custS, custV := w.custS, w.custV
	if newCust {
		custS, custV = newKP(r), newKP(r)
	}
	nodes := append([]custNode{}, w.custN...)
	changed := 0
	switch r.Intn(4) {
	case 0: // one payee replaced
		nodes[r.Intn(len(nodes))].ps = newKP(r)
		changed = 1
	case 1: // a new node (only allowed together with a new custodian account)
		nodes = append(nodes, custNode{newKP(r), newKP(r), newKP(r), newKP(r)})
		changed = 100
	case 2: // all new
		nodes = nil
		for i := 0; i < 7; i++ {
			nodes = append(nodes, custNode{newKP(r), newKP(r), newKP(r), newKP(r)})
		}
		changed = 700
	}
	if r.Chance(1, 10) {
		nodes = nodes[:6]
	}
	sort.Slice(nodes, func(i, j int) bool { return string(nodes[i].cs.pub[:]) < string(nodes[j].cs.pub[:]) })
	if r.Chance(1, 10) && len(nodes) > 1 {
		nodes[0], nodes[1] = nodes[1], nodes[0]
	}
	extra := append(append([]byte{}, custS.pub[:]...), custV.pub[:]...)
	for _, n := range nodes {
		ca := &common.Address{PublicSpendKey: n.cs.pub, PublicViewKey: n.cv.pub}
		pa := &common.Address{PublicSpendKey: n.ps.pub, PublicViewKey: n.pv.pub}
		signer := newKP(r)
		psign := n.ps.priv
		if r.Chance(1, 25) {
			psign = newKP(r).priv
		}
		extra = append(extra, common.EncodeCustodianNode(ca, pa, &signer.priv, &psign, &n.cs.priv, randHash(r))...)
	}
	prev := w.custS.priv
	if r.Chance(1, 10) {
		prev = newKP(r).priv
	}
	ps := prev.Sign(crypto.Blake3Hash(extra))
	extra = append(extra, ps[:]...)

	fee := xinAmount(int64(changed))
	if fee.Sign() == 0 || r.Chance(1, 8) {
		fee = xinAmount(int64(r.Range(1, 50)))
	}
	var l []*uinfo
	for _, ui := range w.spendable(common.XINAssetId) {
		if common.VerifIntegerBig(ui.u.Amount).Cmp(fee) >= 0 && common.VerifIntegerBig(ui.u.Amount).BitLen() < 60 {
			l = []*uinfo{ui}
		}
	}
	if l == nil {
		l = w.pick(common.XINAssetId, 1)
	}
	tx := common.NewTransactionV5(common.XINAssetId)
	w.addInputs(tx, l)
	o, _ := w.scriptOutput(common.OutputTypeCustodianUpdateNodes, sumOf(l), 1, 64)
	tx.Outputs = append(tx.Outputs, o)
	tx.Extra = extra
	return &draft{kind: "custodian-update", tx: tx, ins: l}
}

// ---- directed families ------------------------------------------------------------------

var sigShapes = []string{"idx1", "idx2", "idx65535", "two", "two-no-zero", "empty", "nil"}

// fully valid deposit / node accept / node cancel scenarios (every check before the
// validator's use of sigs[0][0] passes) whose single signature map is reshaped
func (w *World) depositSigShape() *draft {
	w.plain = true
	d := w.deposit()
	d.kind = "deposit-sigshape"
	d.sigShape = sigShapes[w.r.Intn(len(sigShapes))]
	return d
}

func (w *World) acceptSigShape() *draft {
	w.ensurePledging()
	w.unlockAll()
	in := w.pledgeUtxo()
	tx := common.NewTransactionV5(common.XINAssetId)
	w.addInputs(tx, []*uinfo{in})
	tx.Outputs = append(tx.Outputs, &common.Output{Type: common.OutputTypeNodeAccept, Amount: in.u.Amount, Keys: []*crypto.Key{}})
	tx.Extra = append([]byte{}, w.pledge.Extra...)
	signer := w.pledgeKP
	return &draft{kind: "node-accept-sigshape", tx: tx, ins: []*uinfo{in}, sigShape: sigShapes[w.r.Intn(len(sigShapes))],
		maps: func(h crypto.Hash) []map[uint16]*crypto.Signature {
			s := signer.priv.Sign(h)
			return []map[uint16]*crypto.Signature{{0: &s}}
		}}
}

// node cancel reaches its validator only when the pledge output is recorded as a
// script output (an inconsistent view); with two keys and threshold 1 the input
// stage accepts a signature under index 1 and the validator meets sigs[0][0] == nil
func (w *World) cancelSigShape() *draft {
	w.ensurePledging()
	w.unlockAll()
	in := w.pledgeUtxo()
	k0, k1 := newKP(w.r), newKP(w.r)
	p0, p1 := k0.pub, k1.pub
	in.u.Type = common.OutputTypeScript
	in.u.Keys = []*crypto.Key{&p0, &p1}
	in.u.Script = common.NewThresholdScript(1)
	in.u.Mask = newKP(w.r).pub
	in.privs = []crypto.Key{k0.priv, k1.priv}
	w.broken = "utxo-type"
	d := w.nodeCancel()
	d.kind = "node-cancel-sigshape"
	shape := []string{"idx1", "two", "empty", "nil", "idx2"}[w.r.Intn(5)]
	priv := k1.priv
	d.sigShape = shape
	d.maps = func(h crypto.Hash) []map[uint16]*crypto.Signature {
		s := priv.Sign(h)
		return []map[uint16]*crypto.Signature{{0: &s}}
	}
	return d
}

// a correctly signed, balanced transaction of one asset spending existing outputs of
// ANOTHER asset (alone, or next to a same-asset input): refused whatever the fork flag
func (w *World) crossAsset() *draft {
	w.unlockAll()
	from, to := w.other, common.XINAssetId
	if w.r.Bool() {
		from, to = to, from
	}
	l := w.pick(from, w.r.Range(1, 2))
	if len(l) == 0 {
		l = w.fund(from, []*big.Int{big.NewInt(int64(w.r.Range(1, 100000)))})
	}
	if w.r.Chance(1, 3) {
		own := w.pick(to, 1)
		if len(own) == 0 {
			own = w.fund(to, []*big.Int{big.NewInt(int64(w.r.Range(1, 100000)))})
		}
		if w.r.Bool() {
			l = append(own, l...)
		} else {
			l = append(l, own...)
		}
	}
	tx := common.NewTransactionV5(to)
	w.addInputs(tx, l)
	total := sumOf(l)
	if total.Sign() == 0 {
		total = big.NewInt(1)
	}
	w.payOut(tx, total, w.r.Range(1, 2))
	return &draft{kind: "cross-asset", tx: tx, ins: l}
}

// word-boundary sums: every single amount stays below B = 2^k while the running sums
// of the inputs and/or of the outputs cross B; outputs equal the inputs, exceed them by
// exactly B or 2B, or fall short by B
func (w *World) wordSum() *draft {
	r := w.r
	k := []uint{32, 63, 64, 64, 128}[r.Intn(5)]
	B := new(big.Int).Lsh(big.NewInt(1), k)
	small := func() *big.Int { return big.NewInt(int64(r.Range(1, 5))) }
	below := func() *big.Int { // an amount in [1, B-1], often at the edge or exactly B/2
		switch r.Intn(4) {
		case 0:
			return new(big.Int).Sub(B, small())
		case 1:
			return new(big.Int).Rsh(B, 1)
		case 2:
			return small()
		}
		v := r.Big(int(k))
		if v.Sign() == 0 {
			v.SetInt64(1)
		}
		return v
	}
	var ins []*big.Int
	for i, n := 0, r.Range(1, 4); i < n; i++ {
		ins = append(ins, below())
	}
	if r.Chance(1, 4) {
		ins = []*big.Int{small()}
	}
	sin := new(big.Int)
	for _, a := range ins {
		sin.Add(sin, a)
	}
	rel := r.Intn(5)
	sout := new(big.Int).Set(sin)
	label := "balanced"
	switch rel {
	case 1:
		sout.Add(sout, B)
		label = "out=in+B"
	case 2:
		sout.Add(sout, new(big.Int).Lsh(B, 1))
		label = "out=in+2B"
	case 3:
		if sin.Cmp(B) > 0 {
			sout.Sub(sout, B)
			label = "out=in-B"
		}
	}
	// split sout into parts below B
	var outs []*big.Int
	rest := new(big.Int).Set(sout)
	for rest.Cmp(B) >= 0 {
		p := new(big.Int).Sub(B, small())
		if r.Chance(1, 3) {
			p = new(big.Int).Rsh(B, 1)
		}
		outs = append(outs, p)
		rest.Sub(rest, p)
	}
	if rest.Sign() > 0 {
		if rest.Cmp(big.NewInt(2)) > 0 && r.Bool() {
			h := new(big.Int).Rsh(rest, 1)
			outs = append(outs, h)
			rest = new(big.Int).Sub(rest, h)
		}
		outs = append(outs, rest)
	}
	if len(outs) > 1 && r.Bool() {
		outs[0], outs[len(outs)-1] = outs[len(outs)-1], outs[0]
	}
	asset := w.other
	if r.Bool() {
		asset = common.XINAssetId
	}
	l := w.fund(asset, ins)
	tx := common.NewTransactionV5(asset)
	w.addInputs(tx, l)
	for _, p := range outs {
		o, _ := w.scriptOutput(common.OutputTypeScript, p, 1, 1)
		tx.Outputs = append(tx.Outputs, o)
	}
	return &draft{kind: fmt.Sprintf("wordsum-2^%d/%s", k, label), tx: tx, ins: l}
}

// ---- mutations --------------------------------------------------------------------------

var outputTypes = []uint8{0x00, 0xa1, 0xa3, 0xa4, 0xa5, 0xa6, 0xa9, 0xaa, 0xb1, 0xb2, 0x01, 0x77, 0xff}

// mutatePayload applies one change to the unsigned transaction; the label names it.
func (w *World) mutatePayload(d *draft) string {
	r, tx := w.r, d.tx
	pickOut := func() *common.Output { return tx.Outputs[r.Intn(len(tx.Outputs))] }
	switch r.Intn(22) {
	case 0:
		pickOut().Amount = common.Zero
		return "out-zero"
	case 1:
		o := pickOut()
		o.Amount = integer(new(big.Int).Add(common.VerifIntegerBig(o.Amount), big.NewInt(1)))
		return "out-plus1"
	case 2:
		pickOut().Amount = integer(regimeAmount(r))
		return "out-regime"
	case 3:
		tx.Inputs = append(tx.Inputs, tx.Inputs[r.Intn(len(tx.Inputs))])
		d.ins = append(d.ins, nil)
		return "dup-input"
	case 4:
		if tx.Asset == common.XINAssetId {
			tx.Asset = w.other
		} else {
			tx.Asset = common.XINAssetId
		}
		return "wrong-asset"
	case 5:
		i := r.Intn(len(tx.Inputs))
		in := *tx.Inputs[i]
		if r.Bool() {
			in.Hash = randHash(r)
		} else {
			in.Index = uint(r.Intn(1025))
		}
		tx.Inputs[i] = &in
		d.ins[i] = nil
		return "missing-input"
	case 6:
		pickOut().Type = outputTypes[r.Intn(len(outputTypes))]
		return "out-type"
	case 7:
		pickOut().Mask = crypto.Key{}
		return "zero-mask"
	case 8:
		o := pickOut()
		if len(o.Keys) > 0 && r.Bool() {
			k := badPoint(r)
			o.Keys[r.Intn(len(o.Keys))] = &k
		} else {
			o.Mask = badPoint(r)
		}
		return "bad-point"
	case 9:
		var k *crypto.Key
		for _, o := range tx.Outputs {
			if len(o.Keys) > 0 {
				k = o.Keys[0]
			}
		}
		if k != nil {
			o := pickOut()
			o.Keys = append(o.Keys, k)
		}
		return "dup-key"
	case 10:
		o := pickOut()
		o.Script = [][]byte{{0xff, 0xfe, 0x41}, {0xff, 0xfe}, {}, {0xfe, 0xff, 0x01}, {0xff, 0xfe, 0x00}, {0xff, 0xfe, 0x40}}[r.Intn(6)]
		return "script"
	case 11:
		tx.Extra = r.Bytes(boundaryExtra[r.Intn(len(boundaryExtra))])
		return "extra-len"
	case 12:
		n := []int{1, 1, 2, 16, 17}[r.Intn(5)]
		for i := 0; i < n; i++ {
			switch r.Intn(3) {
			case 0:
				tx.References = append(tx.References, randHash(r))
			default:
				t := w.View.Txs[r.Intn(len(w.View.Txs))]
				ver, _ := common.UnmarshalVersionedTransaction(hx(t.Hex))
				tx.References = append(tx.References, ver.PayloadHash())
			}
		}
		return "references"
	case 13:
		pickOut().Withdrawal = &common.WithdrawalData{Address: "x", Tag: "y"}
		return "withdrawal-data"
	case 14, 15:
		sp := &common.Input{}
		if r.Bool() {
			sp.Mint = &common.MintData{Group: "UNIVERSAL", Batch: w.mintB + 1, Amount: integer(sumOutputs(tx))}
		} else {
			sp.Deposit = &common.DepositData{Chain: w.other, AssetKey: "0xasset", Transaction: "ab", Index: 0, Amount: integer(sumOutputs(tx))}
		}
		if r.Bool() {
			tx.Inputs = append(tx.Inputs, sp)
			d.ins = append(d.ins, nil)
		} else {
			tx.Inputs = append([]*common.Input{sp}, tx.Inputs...)
			d.ins = append([]*uinfo{nil}, d.ins...)
		}
		return "surplus-special"
	case 16:
		i := r.Intn(len(tx.Inputs))
		in := *tx.Inputs[i]
		in.Genesis = r.Bytes(r.Range(1, 3))
		tx.Inputs[i] = &in
		return "genesis"
	case 17:
		if tx.Asset == common.XINAssetId {
			so, _ := w.scriptOutput(common.OutputTypeScript, regimeAmount(r), 1, 64)
			tx.Outputs = append(tx.Outputs, so)
			return "add-storage-out"
		}
		tx.Outputs = append(tx.Outputs, tx.Outputs[0])
		return "dup-output"
	case 18:
		tx.Outputs = tx.Outputs[:len(tx.Outputs)-1]
		return "drop-output"
	case 19:
		if len(tx.Inputs) > 1 {
			tx.Inputs = tx.Inputs[:len(tx.Inputs)-1]
			d.ins = d.ins[:len(d.ins)-1]
		}
		return "drop-input"
	case 20:
		for _, in := range tx.Inputs {
			if in.Deposit != nil {
				dd := *in.Deposit
				switch r.Intn(5) {
				case 0:
					dd.AssetKey = " " + dd.AssetKey
				case 1:
					dd.Transaction = ""
				case 2:
					dd.Transaction += "\n"
				case 3:
					dd.Chain = crypto.Hash{}
				case 4:
					dd.AssetKey = "other"
				}
				in.Deposit = &dd
			}
			if in.Mint != nil {
				mm := *in.Mint
				switch r.Intn(3) {
				case 0:
					mm.Group = "KERNELNODE"
				case 1:
					mm.Batch = uint64(r.Intn(4000))
				case 2:
					mm.Amount = integer(regimeAmount(r))
				}
				in.Mint = &mm
			}
		}
		return "special-data"
	default:
		if len(tx.Extra) > 0 {
			tx.Extra[r.Intn(len(tx.Extra))] ^= byte(1 + r.Intn(255))
		}
		return "extra-flip"
	}
}

func sumOutputs(tx *common.Transaction) *big.Int {
	s := new(big.Int)
	for _, o := range tx.Outputs {
		s.Add(s, common.VerifIntegerBig(o.Amount))
	}
	if s.Sign() == 0 {
		s.SetInt64(1)
	}
	return s
}

// sign produces the signed transaction; sigMut selects a signature-level mutation (0 = none)
func (w *World) sign(d *draft, sigMut int) (*common.VersionedTransaction, string) {
	r := w.r
	ver := d.tx.AsVersioned()
	h := ver.PayloadHash()
	label := ""
	if d.noSigs {
		return ver, label
	}
	if sigMut == 1 { // aggregated signature over all inputs
		var pubs, privs []*crypto.Key
		var signers []int
		ok := true
		for _, ui := range d.ins {
			if ui == nil {
				ok = false
				break
			}
			need := threshold(ui)
			for i := range ui.u.Keys {
				if i < need && i < len(ui.privs) {
					signers = append(signers, len(pubs)+i)
					p := ui.privs[i]
					privs = append(privs, &p)
				}
			}
			pubs = append(pubs, ui.u.Keys...)
		}
		if ok && len(signers) > 0 {
			sig, err := crypto.AggregateSign(privs, pubs, signers, r.Bytes(32), h)
			if err == nil {
				as := &common.AggregatedSignature{Signers: signers}
				copy(as.Signature[:], sig[:])
				switch r.Intn(6) {
				case 0:
					as.Signature[r.Intn(64)] ^= 1
					label = "agg-bad-sig"
				case 1:
					as.Signers = as.Signers[:len(as.Signers)-1]
					label = "agg-fewer"
				case 2:
					as.Signers = append(as.Signers, as.Signers[len(as.Signers)-1]+1+r.Intn(3))
					label = "agg-surplus-signer"
				default:
					label = "agg"
				}
				ver.AggregatedSignature = as
				return ver, label
			}
		}
	}
	if d.maps != nil {
		ver.SignaturesMap = d.maps(h)
	} else {
		for _, ui := range d.ins {
			m := map[uint16]*crypto.Signature{}
			if ui != nil {
				need := threshold(ui)
				if r.Chance(1, 6) {
					need = len(ui.privs)
				}
				for i := 0; i < need && i < len(ui.privs); i++ {
					s := ui.privs[i].Sign(h)
					m[uint16(i)] = &s
				}
			}
			ver.SignaturesMap = append(ver.SignaturesMap, m)
		}
	}
	if d.sigShape != "" && len(ver.SignaturesMap) == 1 {
		var one *crypto.Signature
		for _, s := range ver.SignaturesMap[0] {
			one = s
		}
		if one == nil {
			s := signWith(newKP(r).priv, h)
			one = &s
		}
		switch d.sigShape {
		case "idx1":
			ver.SignaturesMap[0] = map[uint16]*crypto.Signature{1: one}
		case "idx2":
			ver.SignaturesMap[0] = map[uint16]*crypto.Signature{2: one}
		case "idx65535":
			ver.SignaturesMap[0] = map[uint16]*crypto.Signature{0xFFFF: one}
		case "two":
			s := signWith(newKP(r).priv, h)
			ver.SignaturesMap[0] = map[uint16]*crypto.Signature{0: one, 1: &s}
		case "two-no-zero":
			s := signWith(newKP(r).priv, h)
			ver.SignaturesMap[0] = map[uint16]*crypto.Signature{1: one, 7: &s}
		case "empty":
			ver.SignaturesMap[0] = map[uint16]*crypto.Signature{}
		case "nil":
			ver.SignaturesMap = nil
		}
		return ver, "sigshape-" + d.sigShape
	}
	sm := ver.SignaturesMap
	switch sigMut {
	case 2:
		if len(sm) > 0 {
			ver.SignaturesMap = sm[:len(sm)-1]
		}
		label = "drop-map"
	case 3:
		s := signWith(newKP(r).priv, h)
		ver.SignaturesMap = append(sm, map[uint16]*crypto.Signature{0: &s})
		label = "surplus-map"
	case 4:
		for _, m := range sm {
			for k, s := range m {
				c := *s
				c[r.Intn(64)] ^= byte(1 + r.Intn(255))
				m[k] = &c
				break
			}
			break
		}
		label = "bad-sig"
	case 5:
		if len(sm) > 0 {
			s := signWith(newKP(r).priv, h)
			sm[r.Intn(len(sm))][uint16([]int{1, 2, 3, 255, 256, 65535}[r.Intn(6)])] = &s
		}
		label = "sig-index"
	case 6:
		for _, m := range sm {
			for k := range m {
				delete(m, k)
				break
			}
			break
		}
		label = "fewer-sigs"
	case 7:
		ver.SignaturesMap = nil
		label = "no-maps"
	case 8:
		if len(sm) > 0 { // a key of another input's map signs here
			s := signWith(newKP(r).priv, h)
			sm[len(sm)-1] = map[uint16]*crypto.Signature{0: &s}
		}
		label = "foreign-sig"
	}
	return ver, label
}

func threshold(ui *uinfo) int {
	if len(ui.u.Script) == 3 {
		return int(ui.u.Script[2])
	}
	return 1
}

// ---- case generation ----------------------------------------------------------------------

type Mix struct {
	BreakView int // chance in 100 of an inconsistent view
	Mutate    int // chance in 100 of a payload mutation
	SigMutate int // chance in 100 of a signature-level mutation
	Bytes     int // chance in 100 that the encoding is byte-mutated afterwards
}

var builders = []func(*World) *draft{
	(*World).transfer, (*World).transfer, (*World).transfer, (*World).storage, (*World).storage,
	(*World).mint, (*World).deposit, (*World).deposit, (*World).withdrawalSubmit, (*World).withdrawalClaim,
	(*World).nodePledge, (*World).nodeAccept, (*World).nodeCancel, (*World).nodeCancel, (*World).nodeRemove,
	(*World).removeOverScript, (*World).custodianUpdate, (*World).cancelOverScript,
	(*World).crossAsset, (*World).wordSum, (*World).wordSum, (*World).depositSigShape, (*World).acceptSigShape, (*World).cancelSigShape,
}

// Generate draws one case.  Encoding a structurally impossible transaction
// makes the real encoder panic; such drafts yield ok=false and are counted.
func Generate(r *vh.Rand, mix Mix, only func(*World) *draft) (cs Case, ok bool) {
	w := NewWorld(r)
	if r.Intn(100) < mix.BreakView {
		w.Break()
	}
	b := only
	if b == nil {
		b = builders[r.Intn(len(builders))]
		if w.prefer != nil && r.Chance(3, 4) {
			b = w.prefer
		}
	}
	var d *draft
	if pan, _ := vh.Catch(func() { d = b(w) }); pan || d == nil {
		return cs, false
	}
	kind := d.kind
	var muts []string
	if r.Intn(100) < mix.Mutate {
		n := 1
		if r.Chance(1, 5) {
			n = 2
		}
		for i := 0; i < n; i++ {
			var lab string
			if pan, _ := vh.Catch(func() { lab = w.mutatePayload(d) }); pan {
				return cs, false
			}
			muts = append(muts, lab)
		}
	}
	sigMut := 0
	if r.Intn(100) < mix.SigMutate {
		sigMut = r.Range(1, 8)
	}
	var raw []byte
	var lab string
	if pan, _ := vh.Catch(func() {
		var ver *common.VersionedTransaction
		ver, lab = w.sign(d, sigMut)
		raw = ver.Marshal()
	}); pan {
		return cs, false
	}
	if lab != "" {
		muts = append(muts, lab)
	}
	if r.Intn(100) < mix.Bytes {
		raw = mutateBytes(r, raw)
		muts = append(muts, "bytes")
	}
	if w.broken != "" {
		muts = append(muts, "view:"+w.broken)
	}
	cs = Case{Kind: kind, Muts: muts, View: w.Snapshot(), Tx: hex.EncodeToString(raw), Ts: w.Ts, Fork: r.Chance(1, 3)}
	return cs, true
}

func mutateBytes(r *vh.Rand, raw []byte) []byte {
	b := append([]byte{}, raw...)
	n := r.Range(1, 3)
	for i := 0; i < n; i++ {
		switch r.Intn(6) {
		case 0, 1, 2:
			b[r.Intn(len(b))] ^= byte(1 << r.Intn(8))
		case 3:
			b[r.Intn(len(b))] = byte(r.Intn(256))
		case 4:
			if len(b) > 40 {
				b = b[:len(b)-r.Range(1, 8)]
			}
		case 5:
			b = append(b, r.Bytes(r.Range(1, 4))...)
		}
	}
	return b
}

// Corpus: boundary cases always run first; it contains the F1 and F2 witnesses.
func Corpus(r *vh.Rand) []Case {
	var out []Case
	add := func(kind string, build func(w *World) *draft, edit func(d *draft)) {
		w := NewWorld(r.Fork(kind))
		d := build(w)
		if edit != nil {
			edit(d)
		}
		d.kind = kind
		ver, _ := w.sign(d, 0)
		out = append(out, Case{Kind: "corpus/" + kind, View: w.Snapshot(), Tx: hex.EncodeToString(ver.Marshal()), Ts: w.Ts})
	}
	// F1: node-remove typed, ordinary script input, no signature maps
	add("F1-remove-over-script-no-maps", (*World).removeOverScript, func(d *draft) { d.noSigs = true })
	// F2: XIN, one-key fffe40 output of 2^100 units
	add("F2-storage-2^100", (*World).storage, func(d *draft) {
		d.tx.Outputs[0].Amount = integer(new(big.Int).Lsh(big.NewInt(1), 100))
		d.tx.Extra = nil
	})
	add("F2-storage-2^64-steps", (*World).storage, func(d *draft) {
		d.tx.Outputs[0].Amount = integer(new(big.Int).Mul(new(big.Int).Lsh(big.NewInt(1), 64), step))
		d.tx.Extra = nil
	})
	add("transfer", (*World).transfer, nil)
	add("mint", (*World).mint, nil)
	add("deposit", (*World).deposit, nil)
	add("withdrawal-submit", (*World).withdrawalSubmit, nil)
	add("withdrawal-claim", (*World).withdrawalClaim, nil)
	add("node-pledge", (*World).nodePledge, nil)
	add("node-accept", (*World).nodeAccept, nil)
	add("node-cancel", (*World).nodeCancel, nil)
	add("node-remove", (*World).nodeRemove, nil)
	add("custodian-update", (*World).custodianUpdate, nil)
	add("cancel-over-script", (*World).cancelOverScript, nil)
	for _, sh := range sigShapes {
		sh := sh
		add("deposit-sig-"+sh, (*World).depositSigShape, func(d *draft) { d.sigShape = sh })
		add("node-accept-sig-"+sh, (*World).acceptSigShape, func(d *draft) { d.sigShape = sh })
	}
	for _, sh := range []string{"idx1", "two", "empty"} {
		sh := sh
		add("node-cancel-sig-"+sh, (*World).cancelSigShape, func(d *draft) { d.sigShape = sh })
	}
	// word-boundary sums: in = 1 unit, out = 2^63 + 2^63 + 1 (differs by exactly 2^64), and friends
	p63 := new(big.Int).Lsh(big.NewInt(1), 63)
	p64m1 := new(big.Int).Sub(new(big.Int).Lsh(big.NewInt(1), 64), big.NewInt(1))
	p31 := new(big.Int).Lsh(big.NewInt(1), 31)
	wordCase := func(name string, ins, outs []*big.Int) {
		add(name, func(w *World) *draft {
			l := w.fund(w.other, ins)
			tx := common.NewTransactionV5(w.other)
			w.addInputs(tx, l)
			for _, p := range outs {
				o, _ := w.scriptOutput(common.OutputTypeScript, p, 1, 1)
				tx.Outputs = append(tx.Outputs, o)
			}
			return &draft{kind: name, tx: tx, ins: l}
		}, nil)
	}
	wordCase("wordsum-in1-out-2^63+2^63+1", []*big.Int{big.NewInt(1)}, []*big.Int{p63, p63, big.NewInt(1)})
	wordCase("wordsum-in-2^63+2^63+1-out1", []*big.Int{p63, p63, big.NewInt(1)}, []*big.Int{big.NewInt(1)})
	wordCase("wordsum-balanced-cross-2^64", []*big.Int{p64m1, big.NewInt(5)}, []*big.Int{p63, p63, big.NewInt(4)})
	wordCase("wordsum-in1-out-2^63+1", []*big.Int{big.NewInt(1)}, []*big.Int{p63, big.NewInt(1)})
	wordCase("wordsum-in3-out-2^32+3", []*big.Int{big.NewInt(3)}, []*big.Int{p31, p31, big.NewInt(3)})
	wordCase("wordsum-in-2^64+2-out2", []*big.Int{p64m1, big.NewInt(3)}, []*big.Int{big.NewInt(2)})
	add("cross-asset", (*World).crossAsset, nil)
	add("cross-asset-2", (*World).crossAsset, nil)
	add("mint-plus-ordinary-input", (*World).transfer, func(d *draft) {
		d.tx.Inputs = append(d.tx.Inputs, &common.Input{Mint: &common.MintData{Group: "UNIVERSAL", Batch: 1 << 40, Amount: integer(sumOutputs(d.tx))}})
		d.ins = append(d.ins, nil)
	})
	add("deposit-first-plus-ordinary-input", (*World).transfer, func(d *draft) {
		sp := &common.Input{Deposit: &common.DepositData{Chain: common.BitcoinAssetId, AssetKey: "k", Transaction: "t", Amount: integer(sumOutputs(d.tx))}}
		d.tx.Inputs = append([]*common.Input{sp}, d.tx.Inputs...)
		d.ins = append([]*uinfo{nil}, d.ins...)
	})
	return out
}
