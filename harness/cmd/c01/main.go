// C01 harness: accepted transactions conserve value within one asset.
//
// Random ledger views (funding / pledge / accept / withdrawal transactions,
// their output records, nodes, custodian, assets, last mint) are served by an
// in-memory common.DataStore; structured version-5 transactions of every type
// are built over them with real keys and signatures (so that many really pass),
// then mostly-valid mutants (amounts 0/±1/2^k, duplicate / wrong-asset / missing
// / locked inputs, surplus mint or deposit inputs, output types, masks, keys,
// scripts, extras, references, signature maps, aggregated signatures), encoded
// with the real encoder, decoded with the real decoder and validated with the
// real (*VersionedTransaction).Validate under recover.
//
// Real-store mode (valsim/badger.go): a temp-dir storage.BadgerStore (in /dev/shm when
// present) is loaded with a genesis and transfers through the real API (Validate ->
// LockUTXOs -> WriteTransaction -> WriteSnapshot); transactions naming real slots and
// never-created slots over the whole index range 0..InputIndexLimit (congruent to real
// ones modulo 128/256/512, just past the output count, duplicates, spent) are validated
// with the REAL store, while model and oracle use the outputs of the written bodies.
//
// Oracle (property text, independent of the model): accepted => every ordinary
// input is an output record of the store with the transaction's asset, no slot
// twice, a mint / deposit input stands alone, sum(inputs) = sum(outputs) > 0
// recomputed with math/big from the store records, every output > 0.
package main

import (
	"verifharness/cmd/c01/valsim"
	"verifharness/vh"
)

func main() {
	c := vh.Start("C01")
	c.Rep.Rule = "corpus (one passing transaction per type, F1/F2 witnesses, surplus special inputs, word-boundary sums, signature-map shapes), " +
		"a real Badger store history with ~66 real/aliased/out-of-range input slots judged against the written bodies, then random views x " +
		"builders of all 11 transaction types with 45% payload mutants and 20% signature mutants, 5% byte-mutated encodings, " +
		"5% inconsistent views; non-trivial = accepted or the validation reached the store (references / inputs / outputs); " +
		"distinct by hash of (view, transaction, ts, fork). Every case is run under both values of the fork flag (implementation + oracle; the twin is also sent to the model when its decision differs)."
	opt := valsim.Options{OracleC01: true}
	if c.Replay != "" {
		var cs valsim.Case
		c.ReplayCase(&cs)
		valsim.Run(c, cs, opt)
		valsim.CloseAll()
		c.Finish()
		return
	}
	for _, cs := range valsim.Corpus(c.Rng) {
		valsim.Run(c, cs, opt)
	}
	// real-store mode: one Badger history per quick run, several in the other tiers
	for i, nb := 0, c.Scale(1, 6); i < nb; i++ {
		for _, cs := range valsim.GenerateBadger(c.Rng) {
			valsim.Run(c, cs, opt)
		}
		valsim.CloseAll()
	}
	n := c.Scale(900, 20000)
	if c.Tier != "quick" {
		opt.RejectSample = 4
	}
	mix := valsim.Mix{BreakView: 5, Mutate: 45, SigMutate: 20, Bytes: 5}
	for i := 0; i < n; i++ {
		cs, ok := valsim.Generate(c.Rng, mix, nil)
		if !ok {
			c.Count("unencodable-draft")
			continue
		}
		valsim.Run(c, cs, opt)
	}
	c.Finish()
}
