// C02 harness: spending requires threshold signatures over the payload hash.
//
// Scenarios are described at the level "which private key signs what for which
// map index / which keys take part in the aggregate, what is tampered"; the
// harness owns every private key.  The real code of /repo builds the
// transaction, hashes the payload, signs (Key.Sign, AggregateSign) and decides
// (VersionedTransaction.Validate and, through the verif hook, validateInputs
// with a chosen transaction type).  UTXOs are served by an in-memory DataStore
// that re-decodes the stored bytes on every read exactly like the Badger store
// (fresh *crypto.Key pointers), except in the "alias" kind, where two UTXOs
// deliberately share a key pointer (model correspondence only).
//
// Oracle (from the property text, independent of the Coq model): authorization
// accepted => every script input with threshold t>0 has at least t distinct
// own keys whose signatures individually verify over the payload hash (map
// mode), resp. the claimed signer list is strictly increasing, in range,
// verifies as an aggregate and has >= t members among the input's own key
// positions (aggregate mode); any single byte change of the payload or of a
// signature of an accepted transaction is refused; BatchVerify equals the
// conjunction of Verify; Verify equals the Ed25519 reference equation.
package main

import (
	"crypto/ed25519"
	"crypto/sha512"
	"encoding/hex"
	"encoding/json"
	"fmt"
	"math/big"
	"sort"

	"filippo.io/edwards25519"
	"github.com/MixinNetwork/mixin/common"
	"github.com/MixinNetwork/mixin/crypto"
	"verifharness/vh"
)

// ---- case description ---------------------------------------------------------

type SigSpec struct {
	Idx    int    `json:"idx"`              // uint16 map key
	Signer int    `json:"signer"`           // index into Privs: whose private key signs
	Other  bool   `json:"other,omitempty"`  // signs another hash than the payload hash
	Tamper int    `json:"tamper,omitempty"` // 1+byte position to alter (0 = none)
	Xor    int    `json:"xor,omitempty"`
	Nil    bool   `json:"nil,omitempty"`     // nil signature pointer
	CopyOf int    `json:"copy_of,omitempty"` // 1+position in the same map whose signature bytes are reused
	Raw    string `json:"raw,omitempty"`     // literal 64 bytes (hex) instead of a produced signature
	DS     string `json:"ds,omitempty"`      // decimal: added to the response s (mod l)
	DR     string `json:"dr,omitempty"`      // decimal d: R replaced by R + d*B, s re-made for the new challenge
}

type InputSpec struct {
	Type   int       `json:"type"`              // output type of the spent UTXO
	Script string    `json:"script"`            // hex
	Keys   []int     `json:"keys"`              // indexes into Privs; the key list is their public keys
	Ptr    []int     `json:"ptr,omitempty"`     // alias kind: pointer identity per key (same id => same *crypto.Key)
	KeyHex []string  `json:"key_hex,omitempty"` // per key: a literal public key instead of Privs[Keys[j]].Public() ("" = derived)
	Sigs   []SigSpec `json:"sigs,omitempty"`
}

type AggSpec struct {
	Signers []int  `json:"signers"` // claimed AggregatedSignature.Signers
	Actual  []int  `json:"actual"`  // flat key positions whose private keys produce the signature
	Seed    string `json:"seed"`
	By      string `json:"by,omitempty"`       // "" / "repo": crypto.AggregateSign; "ref": the harness' transcription of the scheme
	Forge   string `json:"forge,omitempty"`    // rogue-key forgery: the coefficient weakening the attacker bets on
	ForgeBy int    `json:"forge_by,omitempty"` // index into Privs of the only private key the attacker holds
	Other   bool   `json:"other,omitempty"`
	Tamper  int    `json:"tamper,omitempty"`
	Xor     int    `json:"xor,omitempty"`
}

type Case struct {
	Op      string      `json:"op"` // inputs | script | verify | batch | dupout
	Kind    string      `json:"kind"`
	Privs   []string    `json:"privs,omitempty"`
	Inputs  []InputSpec `json:"inputs,omitempty"`
	NMaps   int         `json:"nmaps,omitempty"` // len(SignaturesMap); -1 => nil
	Agg     *AggSpec    `json:"agg,omitempty"`
	TxType  int         `json:"tx_type"` // -1: the transaction's own type (script); else forced through the hook
	Extra   string      `json:"extra,omitempty"`
	Tampers int         `json:"tampers,omitempty"` // how many single-byte tamper re-runs after an acceptance
	TSeed   uint64      `json:"tseed,omitempty"`

	// script
	Script string `json:"script,omitempty"`
	Sum    int    `json:"sum,omitempty"`

	// verify / batch: entries signed by the harness with a known nonce
	Msg     string     `json:"msg,omitempty"`
	Entries []SchEntry `json:"entries,omitempty"`
	KeyHex  []string   `json:"key_hex,omitempty"` // op aggv: literal public keys overriding Privs[j].Public()
	Zs      []string   `json:"zs,omitempty"`      // cancellation families: a coefficient pattern for which the batch sum cancels

	// signatures made for the payload carrying THIS extra instead of Extra (payload tamper, old signatures kept)
	SigExtra *string `json:"sig_extra,omitempty"`
	// lock state of the spent outputs: preset per input (0 none, 1 this payload hash, 2 another hash),
	// the fork flag of the validation, and what is locked AFTER an accepted validation
	// ("all": VersionedTransaction.LockInputs; "some": the inputs LockSel; "other": all, for another hash)
	Locks     []int  `json:"locks,omitempty"`
	Fork      bool   `json:"fork,omitempty"`
	LockAfter string `json:"lock_after,omitempty"`
	LockSel   []int  `json:"lock_sel,omitempty"`
	// op memo: steps run one after the other in one process; the order is the point
	Steps []Case `json:"steps,omitempty"`
}

type SchEntry struct {
	Priv  string `json:"priv"`  // a
	Nonce string `json:"nonce"` // r (scalar, hex little endian as crypto.Key)
	Mode  string `json:"mode"`  // honest | s+1 | s+l | otherR | otherKey | otherMsg | repo | badR
	// linear-cancellation families (mode honest): DS is added to the response s (mod l);
	// DR is added to the nonce behind R, the response staying the one of the original nonce
	// under the NEW challenge.  Either makes the entry individually invalid by a known amount.
	DS string `json:"ds,omitempty"`
	DR string `json:"dr,omitempty"`
}

// ---- helpers --------------------------------------------------------------------

var ordL, _ = new(big.Int).SetString("7237005577332262213973186563042994240857116359379907606001950938285454250989", 10)

func keyFromHex(s string) crypto.Key {
	k, err := crypto.KeyFromString(s)
	if err != nil {
		panic(err)
	}
	return k
}

func leBig(b []byte) *big.Int {
	r := make([]byte, len(b))
	for i := range b {
		r[len(b)-1-i] = b[i]
	}
	return new(big.Int).SetBytes(r)
}

func bigLE32(v *big.Int) []byte {
	b := v.Bytes()
	out := make([]byte, 32)
	for i := range b {
		out[i] = b[len(b)-1-i]
	}
	return out
}

func newPriv(r *vh.Rand) crypto.Key { return crypto.NewKeyFromSeed(r.Bytes(64)) }

// replayAs: while a history ("memo") case runs its steps, every failure and every model case
// is recorded with the WHOLE history as its replay, because the order of the steps is the input.
var replayAs any

// memoLocks: the lock table shared by the steps of one history (nil outside a history)
var memoLocks map[string]crypto.Hash

func fail(c *vh.Ctx, sig, what string, js any) {
	if replayAs != nil {
		js = replayAs
	}
	c.Fail(sig, what, js)
}

func emit(c *vh.Ctx, kind, key string, nontrivial bool, js any, coq string) {
	if replayAs != nil {
		js = replayAs
	}
	c.Case(kind, key, nontrivial, js, coq)
}

func decision(pan bool, err error) string {
	if pan {
		return "panic"
	}
	if err != nil {
		return "reject"
	}
	return "accept"
}

func resUnit(d string) string {
	switch d {
	case "accept":
		return vh.Ok("tt")
	case "reject":
		return vh.Err("unit")
	}
	return vh.Pan("unit")
}

// ---- in-memory DataStore ----------------------------------------------------------

type store struct {
	raw   map[string][]byte               // fresh decoding on every read (as storage/badger_utxo.go does)
	alias map[string]*common.UTXOWithLock // alias kind: objects handed out as they are
	locks map[string]crypto.Hash          // LockHash per UTXO, written by LockUTXOs as storage/badger_utxo.go does
}

func skey(h crypto.Hash, i uint) string { return fmt.Sprintf("%s:%d", h.String(), i) }

func (s *store) ReadUTXOLock(hash crypto.Hash, index uint) (*common.UTXOWithLock, error) {
	if u, ok := s.alias[skey(hash, index)]; ok {
		u.LockHash = s.locks[skey(hash, index)]
		return u, nil
	}
	b, ok := s.raw[skey(hash, index)]
	if !ok {
		return nil, nil
	}
	u, err := common.UnmarshalUTXO(b)
	if err == nil && u != nil {
		u.LockHash = s.locks[skey(hash, index)]
	}
	return u, err
}
func (s *store) ReadTransaction(crypto.Hash) (*common.VersionedTransaction, string, error) {
	return nil, "", nil
}
func (s *store) ReadDepositLock(*common.DepositData) (crypto.Hash, error) { return crypto.Hash{}, nil }
func (s *store) ReadLastMintDistribution(uint64) (*common.MintDistribution, error) {
	return nil, nil
}
func (s *store) LockUTXOs(inputs []*common.Input, tx crypto.Hash, fork bool) error {
	for _, in := range inputs {
		cur := s.locks[skey(in.Hash, in.Index)]
		if cur.HasValue() && cur != tx && !fork {
			return fmt.Errorf("utxo locked for transaction %s", cur)
		}
	}
	for _, in := range inputs {
		s.locks[skey(in.Hash, in.Index)] = tx
	}
	return nil
}
func (s *store) LockDepositInput(*common.DepositData, crypto.Hash, bool) error { return nil }
func (s *store) LockMintInput(*common.MintData, crypto.Hash, bool) error       { return nil }
func (s *store) LockGhostKeys([]*crypto.Key, crypto.Hash, bool) error          { return nil }
func (s *store) ReadAllNodes(uint64, bool) []*common.Node                      { return nil }
func (s *store) ReadCustodian(uint64) (*common.CustodianUpdateRequest, error)  { return nil, nil }
func (s *store) ReadAssetWithBalance(crypto.Hash) (*common.Asset, common.Integer, error) {
	return nil, common.NewInteger(0), nil
}

// ---- the inputs scenario --------------------------------------------------------------

type built struct {
	st      *store
	tx      *common.Transaction
	pubs    [][]crypto.Key // key values per input
	privs   []crypto.Key
	aliased bool
}

func assetID() crypto.Hash { return crypto.Blake3Hash([]byte("c02-asset")) }

func buildBase(cs Case, extra []byte) *built {
	b := &built{st: &store{raw: map[string][]byte{}, alias: map[string]*common.UTXOWithLock{}, locks: map[string]crypto.Hash{}}}
	if memoLocks != nil {
		b.st.locks = memoLocks // lock state written by earlier steps of the history
	}
	for _, p := range cs.Privs {
		b.privs = append(b.privs, keyFromHex(p))
	}
	tx := common.NewTransactionV5(assetID())
	total := common.NewInteger(0)
	ptrs := map[int]*crypto.Key{}
	for i, in := range cs.Inputs {
		h := crypto.Blake3Hash([]byte(fmt.Sprintf("c02-utxo-%d", i)))
		idx := uint(i % 3)
		tx.AddInput(h, idx)
		script, err := hex.DecodeString(in.Script)
		if err != nil {
			panic(err)
		}
		u := &common.UTXOWithLock{}
		u.Asset = assetID()
		u.Input = common.Input{Hash: h, Index: idx}
		u.Output.Type = uint8(in.Type)
		u.Output.Amount = common.NewInteger(uint64(i + 1))
		u.Output.Script = common.Script(script)
		mask := crypto.Blake3Hash([]byte("c02-mask"))
		mk := crypto.NewKeyFromSeed(append(mask[:], mask[:]...)).Public()
		u.Output.Mask = mk
		var vals []crypto.Key
		for j, ki := range in.Keys {
			pub := b.privs[ki].Public()
			if len(in.KeyHex) == len(in.Keys) && in.KeyHex[j] != "" {
				pub = keyFromHex(in.KeyHex[j])
			}
			vals = append(vals, pub)
			if len(in.Ptr) == len(in.Keys) {
				b.aliased = true
				p, ok := ptrs[in.Ptr[j]]
				if !ok {
					kp := pub
					p = &kp
					ptrs[in.Ptr[j]] = p
				}
				u.Output.Keys = append(u.Output.Keys, p)
			} else {
				kp := pub
				u.Output.Keys = append(u.Output.Keys, &kp)
			}
		}
		b.pubs = append(b.pubs, vals)
		total = total.Add(u.Output.Amount)
		if len(in.Ptr) == len(in.Keys) && len(in.Keys) > 0 {
			b.st.alias[skey(h, idx)] = u
		} else {
			b.st.raw[skey(h, idx)] = u.Marshal()
		}
	}
	// one ordinary script output carrying the whole amount
	seed := crypto.Blake3Hash([]byte("c02-out"))
	gk := crypto.NewKeyFromSeed(append(seed[:], seed[:]...)).Public()
	mseed := crypto.Blake3Hash([]byte("c02-outmask"))
	om := crypto.NewKeyFromSeed(append(mseed[:], mseed[:]...)).Public()
	if len(cs.Inputs) > 0 {
		tx.Outputs = append(tx.Outputs, &common.Output{Type: common.OutputTypeScript, Amount: total,
			Keys: []*crypto.Key{&gk}, Mask: om, Script: common.NewThresholdScript(1)})
	}
	tx.Extra = extra
	b.tx = tx
	return b
}

// signatures of the scenario over the hash [h]; returns the map list and, per
// input, the list of (idx, sig bytes or nil) in a canonical order.
type entry struct {
	idx int
	sig *crypto.Signature
}

func makeSigs(cs Case, b *built, h crypto.Hash) ([]map[uint16]*crypto.Signature, [][]entry) {
	other := crypto.Blake3Hash(append([]byte("other"), h[:]...))
	var maps []map[uint16]*crypto.Signature
	var ents [][]entry
	n := cs.NMaps
	if n < 0 {
		return nil, nil
	}
	for i := 0; i < n; i++ {
		m := map[uint16]*crypto.Signature{}
		var es []entry
		if i < len(cs.Inputs) {
			made := make([]*crypto.Signature, len(cs.Inputs[i].Sigs))
			for p, sp := range cs.Inputs[i].Sigs {
				var sg *crypto.Signature
				switch {
				case sp.Nil:
				case sp.Raw != "":
					rb, _ := hex.DecodeString(sp.Raw)
					sg = new(crypto.Signature)
					copy(sg[:], rb)
				case sp.CopyOf > 0 && sp.CopyOf-1 < p && made[sp.CopyOf-1] != nil:
					c := *made[sp.CopyOf-1]
					sg = &c
				default:
					msg := h
					if sp.Other {
						msg = other
					}
					s := b.privs[sp.Signer].Sign(msg)
					if sp.DR != "" {
						s = shiftR(s, b.privs[sp.Signer], msg, sp.DR)
					}
					if sp.DS != "" {
						copy(s[32:], bigLE32(addModL(leBig(s[32:]), dec(sp.DS))))
					}
					if sp.Tamper > 0 {
						s[(sp.Tamper-1)%64] ^= byte(sp.Xor | 1)
					}
					sg = &s
				}
				made[p] = sg
				if _, dup := m[uint16(sp.Idx)]; dup {
					continue // a Go map holds one entry per index
				}
				m[uint16(sp.Idx)] = sg
				es = append(es, entry{sp.Idx, sg})
			}
		}
		maps = append(maps, m)
		ents = append(ents, es)
	}
	return maps, ents
}

func flatKeys(b *built) ([]*crypto.Key, []int) {
	var all []*crypto.Key
	var owner []int
	for i := range b.pubs {
		for j := range b.pubs[i] {
			k := b.pubs[i][j]
			all = append(all, &k)
			owner = append(owner, i)
		}
	}
	return all, owner
}

// aggSignature produces the aggregate signature of the scenario: by the private keys at the
// positions ag.Actual (through the repository's AggregateSign or the harness' transcription), or a
// rogue-key forgery, or - nobody signed - an arbitrary well-formed (R, s) pair.
func aggSignature(ag *AggSpec, privAt func(pos int) *crypto.Key, npos int, anyPriv crypto.Key, all []*crypto.Key, m crypto.Hash) crypto.Signature {
	msg := m
	if ag.Other {
		msg = crypto.Blake3Hash(append([]byte("other"), m[:]...))
	}
	seed, _ := hex.DecodeString(ag.Seed)
	var sig crypto.Signature
	if ag.Forge != "" {
		if refSignersOK(all, ag.Signers) {
			sig = refForge(ag.Forge, anyPriv, all, ag.Signers, seed, msg)
		} else {
			sig = anyPriv.Sign(msg)
		}
	} else {
		var privs []*crypto.Key
		okActual := len(ag.Actual) > 0
		for _, a := range ag.Actual {
			if a < 0 || a >= npos {
				okActual = false
				break
			}
			privs = append(privs, privAt(a))
		}
		if okActual {
			var s *crypto.Signature
			if ag.By == "ref" {
				s = refAggregateSign(privs, all, ag.Actual, seed, msg)
			} else {
				var err error
				pan, _ := vh.Catch(func() { s, err = crypto.AggregateSign(privs, all, ag.Actual, seed, msg) })
				if pan || err != nil {
					s = nil
				}
			}
			if s != nil {
				sig = *s
			} else {
				okActual = false
			}
		}
		if !okActual {
			sig = anyPriv.Sign(msg)
		}
	}
	if ag.Tamper > 0 {
		sig[(ag.Tamper-1)%64] ^= byte(ag.Xor | 1)
	}
	return sig
}

func makeAgg(cs Case, b *built, h crypto.Hash) *common.AggregatedSignature {
	ag := cs.Agg
	all, _ := flatKeys(b)
	flatPriv := []int{}
	for _, in := range cs.Inputs {
		flatPriv = append(flatPriv, in.Keys...)
	}
	holder := b.privs[0]
	if ag.Forge != "" && ag.ForgeBy < len(b.privs) {
		holder = b.privs[ag.ForgeBy]
	}
	sig := aggSignature(ag, func(pos int) *crypto.Key { p := b.privs[flatPriv[pos]]; return &p }, len(flatPriv), holder, all, h)
	return &common.AggregatedSignature{Signers: append([]int{}, ag.Signers...), Signature: sig}
}

func scriptThreshold(hexs string) (int, bool) {
	s, _ := hex.DecodeString(hexs)
	if len(s) != 3 || s[0] != 0xff || s[1] != 0xfe || s[2] > 64 {
		return 0, false
	}
	return int(s[2]), true
}

func isScriptType(t int) bool { return t == 0x00 || t == 0xa6 }

type runOut struct {
	hook, full string
}

// runAuth runs the real code for the scenario with the given extra bytes;
// signHash selects which extra the signatures were made for (tamper re-runs
// keep the signatures of the original payload).
func runAuth(cs Case, extra []byte, sigExtra []byte, useSigExtra bool, mutate func(*common.SignedTransaction)) (runOut, *built, crypto.Hash, []map[uint16]*crypto.Signature, [][]entry, *common.AggregatedSignature) {
	b := buildBase(cs, extra)
	ver := b.tx.AsVersioned()
	var h crypto.Hash
	var out runOut
	pan, _ := vh.Catch(func() { h = ver.PayloadHash() })
	if pan {
		out.hook, out.full = "panic", "panic"
		return out, b, h, nil, nil, nil
	}
	otherLock := crypto.Blake3Hash(append([]byte("c02-other-lock"), h[:]...))
	for i, l := range cs.Locks {
		if i >= len(b.tx.Inputs) {
			break
		}
		k := skey(b.tx.Inputs[i].Hash, b.tx.Inputs[i].Index)
		switch l {
		case 0:
			delete(b.st.locks, k)
		case 1:
			b.st.locks[k] = h
		default:
			b.st.locks[k] = otherLock
		}
	}
	signH := h
	if useSigExtra {
		sb := buildBase(cs, sigExtra)
		signH = sb.tx.AsVersioned().PayloadHash()
	}
	var maps []map[uint16]*crypto.Signature
	var ents [][]entry
	var ag *common.AggregatedSignature
	if cs.Agg != nil {
		ag = makeAgg(cs, b, signH)
	} else {
		maps, ents = makeSigs(cs, b, signH)
	}
	ver.SignaturesMap = maps
	ver.AggregatedSignature = ag
	if mutate != nil {
		mutate(&ver.SignedTransaction)
	}
	txType := ver.TransactionType()
	if cs.TxType >= 0 {
		txType = uint8(cs.TxType)
	}
	var err error
	pan, _ = vh.Catch(func() {
		err = common.VerifC02ValidateInputs(&ver.SignedTransaction, b.st, h, txType, cs.Fork)
	})
	out.hook = decision(pan, err)
	out.full = "n/a"
	if cs.TxType < 0 && !b.aliased {
		// the whole validation on a fresh copy (Validate caches sizes in the object)
		v2 := b.tx.AsVersioned()
		v2.SignaturesMap = ver.SignaturesMap
		v2.AggregatedSignature = ver.AggregatedSignature
		pan, _ = vh.Catch(func() { err = v2.Validate(b.st, 1700000000000000000, cs.Fork) })
		out.full = decision(pan, err)
	}
	return out, b, h, ver.SignaturesMap, ents, ver.AggregatedSignature
}

func runInputs(c *vh.Ctx, cs Case) {
	extra, _ := hex.DecodeString(cs.Extra)
	var sigExtra []byte
	if cs.SigExtra != nil {
		sigExtra, _ = hex.DecodeString(*cs.SigExtra)
	}
	out, b, h, maps, ents, ag := runAuth(cs, extra, sigExtra, cs.SigExtra != nil, nil)
	js, _ := json.Marshal(cs)
	key := string(js)

	// ---- observations for the model ----
	valID := map[crypto.Key]int{}
	vid := func(k crypto.Key) int {
		if v, ok := valID[k]; ok {
			return v
		}
		valID[k] = len(valID) + 1
		return valID[k]
	}
	sigID := map[crypto.Signature]int{}
	sid := func(s crypto.Signature) int {
		if v, ok := sigID[s]; ok {
			return v
		}
		sigID[s] = len(sigID) + 1
		return sigID[s]
	}
	lockID := make([]int, len(cs.Inputs)) // as validateInputs saw it (before any LockAfter)
	for i := range cs.Inputs {
		if i < len(b.tx.Inputs) {
			cur := b.st.locks[skey(b.tx.Inputs[i].Hash, b.tx.Inputs[i].Index)]
			switch {
			case !cur.HasValue():
			case cur == h:
				lockID[i] = 1
			default:
				lockID[i] = 2
			}
		}
	}
	if cs.LockAfter != "" && out.hook == "accept" {
		// what the kernel does with a validated transaction: lock its inputs for the payload hash
		v := b.tx.AsVersioned()
		var lerr error
		switch cs.LockAfter {
		case "all":
			lerr = v.LockInputs(b.st, cs.Fork)
		case "some":
			var sel []*common.Input
			for _, i := range cs.LockSel {
				if i < len(b.tx.Inputs) {
					sel = append(sel, b.tx.Inputs[i])
				}
			}
			lerr = b.st.LockUTXOs(sel, h, cs.Fork)
		case "other":
			lerr = b.st.LockUTXOs(b.tx.Inputs, crypto.Blake3Hash(append([]byte("c02-other-lock"), h[:]...)), true)
		}
		if lerr != nil {
			c.Note("lock after validation refused: " + lerr.Error())
		}
		c.Count("lock-after-" + cs.LockAfter)
	}
	var usT []string
	flat := 0
	for i, in := range cs.Inputs {
		var ks []string
		for j := range in.Keys {
			p := flat
			if len(in.Ptr) == len(in.Keys) {
				p = 100000 + in.Ptr[j]
			}
			ks = append(ks, fmt.Sprintf("(%s, %s)", vh.NU(uint64(p)), vh.NU(uint64(vid(b.pubs[i][j])))))
			flat++
		}
		sb, _ := hex.DecodeString(in.Script)
		usT = append(usT, fmt.Sprintf("(%s, %s, %s, %s)", vh.ZI(int64(in.Type)), vh.List(ks, "(N * N)"), vh.Bytes(sb), vh.NU(uint64(lockID[i]))))
	}
	vt := map[[2]int]bool{}
	var vtab []string
	validIdx := make([]map[int]bool, len(cs.Inputs)) // per input: indexes whose (own key, signature) verifies
	for i := range validIdx {
		validIdx[i] = map[int]bool{}
	}
	var sigsT []string
	for i, es := range ents {
		var mt []string
		for _, e := range es {
			if e.sig == nil {
				mt = append(mt, fmt.Sprintf("(%s, %s)", vh.NU(uint64(e.idx)), vh.None("N")))
				continue
			}
			mt = append(mt, fmt.Sprintf("(%s, %s)", vh.NU(uint64(e.idx)), vh.Some(vh.NU(uint64(sid(*e.sig))))))
			if i < len(cs.Inputs) && e.idx < len(b.pubs[i]) {
				k := b.pubs[i][e.idx]
				ok := k.Verify(h, *e.sig)
				// the oracle counts validity by the Ed25519 reference equation (keys here are
				// honest prime-order keys), so it does not depend on the history of the code under test
				ref := ed25519.Verify(ed25519.PublicKey(k[:]), h[:], e.sig[:])
				if ref != ok {
					fail(c, "verify-vs-reference", fmt.Sprintf("Key.Verify=%v, Ed25519 reference=%v (input %d index %d)", ok, ref, i, e.idx), cs)
				}
				if ref {
					validIdx[i][e.idx] = true
				}
				if ok {
					p := [2]int{vid(k), sid(*e.sig)}
					if !vt[p] {
						vt[p] = true
						vtab = append(vtab, fmt.Sprintf("(%s, %s)", vh.NU(uint64(p[0])), vh.NU(uint64(p[1]))))
					}
				}
				// what the scenario says about this signature
				sp := findSpec(cs.Inputs[i].Sigs, e.idx)
				if sp != nil && sp.Raw == "" && sp.CopyOf == 0 {
					honest := !sp.Other && sp.Tamper == 0 && sp.DS == "" && sp.DR == "" && cs.SigExtra == nil && b.privs[sp.Signer].Public() == k
					if honest != ok {
						fail(c, "verify-vs-scenario", fmt.Sprintf("Key.Verify=%v for a signature the scenario made honest=%v (input %d index %d)", ok, honest, i, e.idx), cs)
					}
				}
			}
		}
		sigsT = append(sigsT, vh.List(mt, "(N * option N)"))
	}
	agT := vh.None("(list Z)")
	aggok := false
	all, owner := flatKeys(b)
	if ag != nil {
		var ss []string
		for _, s := range ag.Signers {
			ss = append(ss, vh.ZI(int64(s)))
		}
		agT = vh.Some(vh.List(ss, "Z"))
		// the verdict comes from the harness' own transcription of the scheme, not from the code under test
		aggok = refAggregateVerify(&ag.Signature, all, ag.Signers, h)
		implAgg := false
		pan, _ := vh.Catch(func() { implAgg = crypto.AggregateVerify(&ag.Signature, all, ag.Signers, h) == nil })
		if implAgg && !aggok {
			fail(c, "aggregate-verify-accepts-reference-rejects", "crypto.AggregateVerify accepts an aggregate the independent transcription of the scheme refuses (kind "+cs.Kind+")", cs)
		}
		if pan {
			fail(c, "aggregate-verify-panic", "crypto.AggregateVerify panicked", cs)
		}
	}
	txType := int64(cs.TxType)
	if cs.TxType < 0 {
		txType = int64(b.tx.AsVersioned().TransactionType())
	}

	// ---- structural facts computed from the property text (not from the model) ----
	structOK := true
	for i, in := range cs.Inputs {
		t, okf := scriptThreshold(in.Script)
		if !isScriptType(in.Type) {
			continue
		}
		if !okf {
			structOK = false
			continue
		}
		if ag == nil {
			if i >= len(ents) || len(ents[i]) < t {
				structOK = false
			}
		}
	}
	coq := vh.App("CInputs", vh.List(usT, "(Z * list (N * N) * list N * N)"), vh.List(sigsT, "(list (N * option N))"),
		agT, vh.ZI(txType), vh.Bool(cs.Fork), vh.List(vtab, "(N * N)"), vh.Bool(aggok), resUnit(out.hook))
	nontrivial := out.hook == "accept" || structOK
	emit(c, cs.Kind, key, nontrivial, cs, coq)
	c.Count("hook-" + out.hook)
	c.Count("validate-" + out.full)

	// ---- oracle ----
	if out.hook == "panic" || out.full == "panic" {
		fail(c, "authorization-panic", "validateInputs/Validate panicked on a well-formed transaction object (hook="+out.hook+" full="+out.full+")", cs)
		return
	}
	if b.aliased {
		return // shared key pointers cannot come out of the store; model correspondence only
	}
	if out.full == "accept" && out.hook != "accept" {
		fail(c, "full-accepts-without-authorization", "Validate accepted but validateInputs refused", cs)
	}
	accepted := out.hook == "accept"
	anyPositive := false
	if accepted {
		for i, in := range cs.Inputs {
			if !isScriptType(in.Type) {
				continue
			}
			t, okf := scriptThreshold(in.Script)
			if !okf {
				fail(c, "accepted-malformed-script", fmt.Sprintf("input %d with script %s accepted", i, in.Script), cs)
				continue
			}
			if t == 0 {
				continue
			}
			anyPositive = true
			if ag == nil {
				// distinct own keys with an individually valid signature
				distinct := map[crypto.Key]bool{}
				for idx := range validIdx[i] {
					distinct[b.pubs[i][idx]] = true
				}
				n := len(distinct)
				if cs.Kind == "dupkeys" {
					n = len(validIdx[i]) // key list with repeated values: count positions (see report)
				}
				if n < t {
					fail(c, "accepted-below-threshold", fmt.Sprintf("input %d threshold %d accepted with %d distinct own keys holding a valid signature", i, t, n), cs)
				}
				// every supplied entry must address an own key
				for _, e := range ents[i] {
					if e.idx >= len(b.pubs[i]) {
						fail(c, "accepted-out-of-range-index", fmt.Sprintf("input %d map index %d >= %d keys", i, e.idx, len(b.pubs[i])), cs)
					}
				}
			} else {
				seen := map[int]bool{}
				n := 0
				for _, s := range ag.Signers {
					if s >= 0 && s < len(owner) && owner[s] == i && !seen[s] {
						n++
					}
					seen[s] = true
				}
				if n < t {
					fail(c, "accepted-below-threshold-aggregate", fmt.Sprintf("input %d threshold %d accepted with %d own signers", i, t, n), cs)
				}
			}
		}
		if ag != nil && anyPositive {
			if !sort.IntsAreSorted(ag.Signers) || hasDup(ag.Signers) {
				fail(c, "accepted-unordered-signers", "aggregate accepted with signers not strictly increasing", cs)
			}
			for _, s := range ag.Signers {
				if s < 0 || s >= len(owner) {
					fail(c, "accepted-out-of-range-signer", fmt.Sprintf("signer %d of %d keys", s, len(owner)), cs)
				}
			}
			if !aggok {
				fail(c, "accepted-invalid-aggregate", "aggregate accepted without threshold own signers: the independent aggregate verdict refuses the claimed signers", cs)
			}
			honest := !cs.Agg.Other && cs.Agg.Tamper == 0 && cs.Agg.Forge == "" && cs.SigExtra == nil && sameSet(cs.Agg.Signers, cs.Agg.Actual)
			if !honest {
				fail(c, "accepted-forged-aggregate", "accepted an aggregate the scenario did not produce for these signers and this payload", cs)
			}
		}
	}

	// ---- single byte tampering of an accepted transaction ----
	if accepted && anyPositive && cs.Tampers > 0 {
		tr := vh.NewRand(cs.TSeed, "c02-tamper")
		for k := 0; k < cs.Tampers; k++ {
			// (a) a payload byte: the extra field is part of the signed payload
			ex2 := append([]byte{}, extra...)
			if len(ex2) == 0 {
				ex2 = []byte{0}
			} else {
				ex2[tr.Intn(len(ex2))] ^= byte(1 << uint(tr.Intn(8)))
			}
			o2, _, _, _, _, _ := runAuth(cs, ex2, extra, true, nil)
			c.Count("tamper-payload")
			if o2.hook == "accept" || o2.full == "accept" {
				fail(c, "tampered-payload-accepted", fmt.Sprintf("payload byte changed (extra %x), signatures kept: still accepted", ex2), cs)
			}
			// (b) a signature byte
			pos, bit := tr.Intn(64), byte(1<<uint(tr.Intn(8)))
			which := tr.Intn(1 << 20)
			desc := ""
			o3, _, _, _, _, _ := runAuth(cs, extra, nil, false, func(st *common.SignedTransaction) {
				if st.AggregatedSignature != nil {
					st.AggregatedSignature.Signature[pos] ^= bit
					desc = fmt.Sprintf("aggregate signature byte %d ^ %02x", pos, bit)
					return
				}
				// signatures of inputs with a positive threshold, in canonical order
				type ref struct {
					i   int
					idx uint16
				}
				var refs []ref
				for i, m := range st.SignaturesMap {
					if i >= len(cs.Inputs) {
						continue
					}
					if t, ok := scriptThreshold(cs.Inputs[i].Script); !ok || t == 0 || !isScriptType(cs.Inputs[i].Type) {
						continue // only signatures of ordinary inputs with a positive threshold
					}
					for idx, s := range m {
						if s != nil {
							refs = append(refs, ref{i, idx})
						}
					}
				}
				if len(refs) == 0 {
					desc = "none"
					return
				}
				sort.Slice(refs, func(a, b int) bool {
					if refs[a].i != refs[b].i {
						return refs[a].i < refs[b].i
					}
					return refs[a].idx < refs[b].idx
				})
				r := refs[which%len(refs)]
				cp := *st.SignaturesMap[r.i][r.idx]
				cp[pos] ^= bit
				st.SignaturesMap[r.i][r.idx] = &cp
				desc = fmt.Sprintf("input %d index %d signature byte %d ^ %02x", r.i, r.idx, pos, bit)
			})
			if desc != "none" {
				c.Count("tamper-signature")
				if o3.hook == "accept" || o3.full == "accept" {
					fail(c, "tampered-signature-accepted", desc+": still accepted", cs)
				}
			}
		}
	}
	_ = maps
}

func findSpec(sp []SigSpec, idx int) *SigSpec {
	for i := range sp {
		if sp[i].Idx == idx {
			return &sp[i]
		}
	}
	return nil
}

func hasDup(a []int) bool {
	m := map[int]bool{}
	for _, x := range a {
		if m[x] {
			return true
		}
		m[x] = true
	}
	return false
}

func sameSet(a, b []int) bool {
	if len(a) != len(b) {
		return false
	}
	for i := range a {
		if a[i] != b[i] {
			return false
		}
	}
	return true
}

// ---- Script.Validate --------------------------------------------------------------------

func runScript(c *vh.Ctx, cs Case) {
	s, _ := hex.DecodeString(cs.Script)
	var err error
	pan, _ := vh.Catch(func() { err = common.Script(s).Validate(cs.Sum) })
	got := !pan && err == nil
	emit(c, "script", fmt.Sprintf("script|%s|%d", cs.Script, cs.Sum), got, cs,
		vh.App("CScript", vh.Bytes(s), vh.ZI(int64(cs.Sum)), vh.Bool(got)))
	t, okf := scriptThreshold(cs.Script)
	want := okf && cs.Sum >= t
	if pan {
		fail(c, "script-panic", "Script.Validate panicked", cs)
	} else if got != want {
		fail(c, "script-threshold", fmt.Sprintf("Script(%s).Validate(%d) accepted=%v, threshold rule says %v", cs.Script, cs.Sum, got, want), cs)
	}
}

// ---- Verify / BatchVerify with known discrete logs ----------------------------------------

func dec(s string) *big.Int {
	v, ok := new(big.Int).SetString(s, 10)
	if !ok {
		panic("bad decimal " + s)
	}
	return v.Mod(v, ordL)
}

func addModL(a, b *big.Int) *big.Int {
	v := new(big.Int).Add(a, b)
	return v.Mod(v, ordL)
}

func scalarOfBig(v *big.Int) *edwards25519.Scalar {
	s, err := edwards25519.NewScalar().SetCanonicalBytes(bigLE32(new(big.Int).Mod(v, ordL)))
	if err != nil {
		panic(err)
	}
	return s
}

// shiftR turns the valid signature (R, s) of priv over msg into (R + d*B, s + (k' - k)*a):
// the response of the ORIGINAL nonce under the challenge of the new transcript, so the
// verification equation is off by exactly d*B.
func shiftR(sg crypto.Signature, priv crypto.Key, msg crypto.Hash, d string) crypto.Signature {
	pub := priv.Public()
	Rp, err := new(edwards25519.Point).SetBytes(sg[:32])
	if err != nil {
		panic(err)
	}
	D := new(edwards25519.Point).ScalarBaseMult(scalarOfBig(dec(d)))
	R2 := new(edwards25519.Point).Add(Rp, D).Bytes()
	k := challenge(sg[:32], pub[:], msg)
	k2 := challenge(R2, pub[:], msg)
	diff := edwards25519.NewScalar().Subtract(k2, k)
	sOld, err := edwards25519.NewScalar().SetCanonicalBytes(sg[32:])
	if err != nil {
		panic(err)
	}
	sNew := edwards25519.NewScalar().MultiplyAdd(diff, scalarOf(priv), sOld)
	var out crypto.Signature
	copy(out[:32], R2)
	copy(out[32:], sNew.Bytes())
	return out
}

func scalarOf(k crypto.Key) *edwards25519.Scalar {
	s, err := edwards25519.NewScalar().SetCanonicalBytes(k[:])
	if err != nil {
		panic(err)
	}
	return s
}

func challenge(R, A []byte, m crypto.Hash) *edwards25519.Scalar {
	h := sha512.New()
	h.Write(R)
	h.Write(A)
	h.Write(m[:])
	k, err := edwards25519.NewScalar().SetUniformBytes(h.Sum(nil))
	if err != nil {
		panic(err)
	}
	return k
}

type schOut struct {
	pub      crypto.Key
	sig      crypto.Signature
	a, r, s  *big.Int
	k        *big.Int
	modelled bool // (a, r, s, k) describe the verified transcript
}

func buildEntry(e SchEntry, m crypto.Hash) schOut {
	priv, nonce := keyFromHex(e.Priv), keyFromHex(e.Nonce)
	var o schOut
	o.pub = priv.Public()
	o.a, o.r = leBig(priv[:]), leBig(nonce[:])
	R := nonce.Public()
	o.modelled = true
	other := crypto.Blake3Hash(append([]byte("other"), m[:]...))
	signMsg := m
	if e.Mode == "otherMsg" {
		signMsg = other
	}
	if e.Mode == "repo" {
		// the repository's own signer; its nonce is not known to the harness:
		// r is recovered from the response, and checked against R below
		sg := priv.Sign(m)
		o.sig = sg
		k := challenge(sg[:32], o.pub[:], m)
		o.k = leBig(k.Bytes())
		o.s = leBig(sg[32:])
		rr := new(big.Int).Mul(o.k, o.a)
		rr.Sub(o.s, rr).Mod(rr, ordL)
		o.r = rr
		var rk crypto.Key
		copy(rk[:], bigLE32(rr))
		rp := rk.Public()
		if string(rp[:]) != string(sg[:32]) {
			o.modelled = false
		}
		return o
	}
	if e.DR != "" {
		// R' = (r + d)*B while the response below is made with the nonce r
		o.r = addModL(o.r, dec(e.DR))
		var nk crypto.Key
		copy(nk[:], bigLE32(o.r))
		R = nk.Public()
	}
	k := challenge(R[:], o.pub[:], signMsg)
	s := edwards25519.NewScalar().MultiplyAdd(k, scalarOf(priv), scalarOf(nonce))
	copy(o.sig[:32], R[:])
	copy(o.sig[32:], s.Bytes())
	o.s = leBig(s.Bytes())
	if e.DS != "" {
		o.s = addModL(o.s, dec(e.DS))
		copy(o.sig[32:], bigLE32(o.s))
	}
	switch e.Mode {
	case "s+1":
		o.s = new(big.Int).Add(o.s, big.NewInt(1))
		if o.s.Cmp(ordL) >= 0 {
			o.s.Sub(o.s, ordL)
		}
		copy(o.sig[32:], bigLE32(o.s))
	case "s+l":
		o.s = new(big.Int).Add(o.s, ordL)
		copy(o.sig[32:], bigLE32(o.s))
	case "otherR":
		n2 := crypto.NewKeyFromSeed(append(nonce[:], priv[:]...))
		R2 := n2.Public()
		copy(o.sig[:32], R2[:])
		o.r = leBig(n2[:])
	case "otherKey":
		p2 := crypto.NewKeyFromSeed(append(priv[:], nonce[:]...))
		o.pub = p2.Public()
		o.a = leBig(p2[:])
	case "torsionR", "torsionKey", "mixedR", "mixedKey", "noncanonR":
		// encodings that only a lax point decoder accepts: small-order points,
		// points with a torsion component, non-canonical field elements
		o.modelled = false
		lo := lowOrder
		if e.Mode == "mixedR" || e.Mode == "mixedKey" {
			lo = lowOrder[1:] // a non-trivial torsion component
		}
		tb, _ := hex.DecodeString(lo[int(nonce[0])%len(lo)])
		T, err := new(edwards25519.Point).SetBytes(tb)
		if err != nil {
			panic(err)
		}
		Rp, _ := new(edwards25519.Point).SetBytes(R[:])
		Ap, _ := new(edwards25519.Point).SetBytes(o.pub[:])
		switch e.Mode {
		case "torsionR": // R is the small-order point itself, s = k*a
			copy(o.sig[:32], tb)
			kk := challenge(tb, o.pub[:], m)
			ss := edwards25519.NewScalar().Multiply(kk, scalarOf(priv))
			copy(o.sig[32:], ss.Bytes())
		case "torsionKey": // the key is a small-order point, s = r
			copy(o.pub[:], tb)
			copy(o.sig[32:], nonce[:])
		case "mixedR": // R + T, response made for the transcript that is verified
			R2 := new(edwards25519.Point).Add(Rp, T).Bytes()
			copy(o.sig[:32], R2)
			kk := challenge(R2, o.pub[:], m)
			ss := edwards25519.NewScalar().MultiplyAdd(kk, scalarOf(priv), scalarOf(nonce))
			copy(o.sig[32:], ss.Bytes())
		case "mixedKey": // A + T
			A2 := new(edwards25519.Point).Add(Ap, T).Bytes()
			copy(o.pub[:], A2)
			kk := challenge(R[:], A2, m)
			ss := edwards25519.NewScalar().MultiplyAdd(kk, scalarOf(priv), scalarOf(nonce))
			copy(o.sig[32:], ss.Bytes())
		case "noncanonR": // the identity with the sign bit of x set / y = p+1
			nb, _ := hex.DecodeString(nonCanon[int(nonce[0])%len(nonCanon)])
			copy(o.sig[:32], nb)
			kk := challenge(nb, o.pub[:], m)
			ss := edwards25519.NewScalar().Multiply(kk, scalarOf(priv))
			copy(o.sig[32:], ss.Bytes())
		}
	case "badR":
		// y = 2^255-1 style non-canonical / undecodable commitment
		for i := 0; i < 32; i++ {
			o.sig[i] = 0xff
		}
		o.modelled = false
	}
	// the challenge of the transcript that is verified: (R in sig, key, m)
	kk := challenge(o.sig[:32], o.pub[:], m)
	o.k = leBig(kk.Bytes())
	return o
}

var lowOrder = []string{
	"0100000000000000000000000000000000000000000000000000000000000000", // identity
	"ecffffffffffffffffffffffffffffffffffffffffffffffffffffffffffff7f", // order 2
	"0000000000000000000000000000000000000000000000000000000000000000", // order 4
	"0000000000000000000000000000000000000000000000000000000000000080", // order 4
	"26e8958fc2b227b045c3f489f2ef98f0d5dfac05d3c63339b13802886d53fc05", // order 8
	"26e8958fc2b227b045c3f489f2ef98f0d5dfac05d3c63339b13802886d53fc85", // order 8
	"c7176a703d4dd84fba3c0b760d10670f2a2053fa2c39ccc64ec7fd7792ac037a", // order 8
	"c7176a703d4dd84fba3c0b760d10670f2a2053fa2c39ccc64ec7fd7792ac03fa", // order 8
}

var nonCanon = []string{
	"0100000000000000000000000000000000000000000000000000000000000080", // identity, x sign bit set
	"eeffffffffffffffffffffffffffffffffffffffffffffffffffffffffffff7f", // y = p + 1
}

func laxMode(m string) bool {
	switch m {
	case "torsionR", "torsionKey", "mixedR", "mixedKey", "noncanonR":
		return true
	}
	return false
}

func entryTerm(o schOut) string {
	return fmt.Sprintf("(%s, %s, %s, %s)", vh.Z(o.a), vh.Z(o.r), vh.Z(o.s), vh.Z(o.k))
}

func runVerify(c *vh.Ctx, cs Case) {
	mb, _ := hex.DecodeString(cs.Msg)
	var m crypto.Hash
	copy(m[:], mb)
	js, _ := json.Marshal(cs)
	if cs.Op == "verify" {
		o := buildEntry(cs.Entries[0], m)
		var got bool
		pan, _ := vh.Catch(func() { got = o.pub.Verify(m, o.sig) })
		coq := ""
		if o.modelled && !pan {
			coq = vh.App("CVerify", vh.Z(o.a), vh.Z(o.r), vh.Z(o.s), vh.Z(o.k), vh.Bool(got))
		}
		emit(c, "verify-"+cs.Entries[0].Mode, string(js), got, cs, coq)
		if pan {
			fail(c, "verify-panic", "Key.Verify panicked", cs)
			return
		}
		ref := ed25519.Verify(ed25519.PublicKey(o.pub[:]), m[:], o.sig[:])
		if ref != got && !laxMode(cs.Entries[0].Mode) { // the reference decoder is lax on purpose
			fail(c, "verify-vs-reference", fmt.Sprintf("Key.Verify=%v, Ed25519 reference=%v", got, ref), cs)
		}
		want := (cs.Entries[0].Mode == "honest" || cs.Entries[0].Mode == "repo") && cs.Entries[0].DS == "" && cs.Entries[0].DR == ""
		if got != want {
			fail(c, "verify-vs-scenario", fmt.Sprintf("Key.Verify=%v on a %s signature", got, cs.Entries[0].Mode), cs)
		}
		return
	}
	// batch
	var keys []*crypto.Key
	var sigs []*crypto.Signature
	var terms []string
	all, modelled := true, true
	for _, e := range cs.Entries {
		o := buildEntry(e, m)
		k, s := o.pub, o.sig
		keys = append(keys, &k)
		sigs = append(sigs, &s)
		terms = append(terms, entryTerm(o))
		modelled = modelled && o.modelled
		var one bool
		pan, _ := vh.Catch(func() { one = k.Verify(m, s) })
		all = all && one && !pan
	}
	var got bool
	pan, _ := vh.Catch(func() { got = crypto.BatchVerify(m, keys, sigs) })
	coq := ""
	if modelled && !pan {
		coq = vh.App("CBatch", vh.List(terms, "(Z * Z * Z * Z)"), vh.Bool(got))
		if len(cs.Zs) > 0 {
			var zs []string
			for _, z := range cs.Zs {
				zs = append(zs, vh.Z(dec(z)))
			}
			coq = vh.App("CCancel", vh.List(terms, "(Z * Z * Z * Z)"), vh.List(zs, "Z"), vh.Bool(got))
		}
	}
	kind := fmt.Sprintf("batch-%d", len(cs.Entries))
	if len(cs.Zs) > 0 {
		kind = cs.Kind
	}
	emit(c, kind, string(js), got || len(cs.Zs) > 0, cs, coq)
	if pan {
		fail(c, "batch-panic", "crypto.BatchVerify panicked", cs)
		return
	}
	want := all && len(cs.Entries) > 0
	if got != want {
		fail(c, "batch-disagrees", fmt.Sprintf("BatchVerify=%v, conjunction of Verify=%v over %d entries", got, want, len(cs.Entries)), cs)
	}
}

// ---- an output with a repeated key must be refused (hypothesis: key lists hold distinct keys) --

func runDupOut(c *vh.Ctx, cs Case) {
	b := buildBase(cs, nil)
	// second output repeating the first output's key
	o0 := b.tx.Outputs[0]
	half := o0.Amount
	k2 := *o0.Keys[0]
	fresh := crypto.NewKeyFromSeed(append(k2[:], k2[:]...)).Public()
	o0.Keys = []*crypto.Key{o0.Keys[0], &fresh, &k2}
	o0.Amount = half
	ver := b.tx.AsVersioned()
	h := ver.PayloadHash()
	maps, _ := makeSigs(cs, b, h)
	ver.SignaturesMap = maps
	var err error
	pan, _ := vh.Catch(func() { err = ver.Validate(b.st, 1700000000000000000, false) })
	d := decision(pan, err)
	emit(c, "dupout", "dupout|"+cs.Privs[0], d == "reject", cs, "")
	if d == "accept" {
		fail(c, "output-with-repeated-key-accepted", "a transaction creating an output whose key list repeats a key was accepted", cs)
	}
}

// ---- a script input beside a mint / deposit input: validateInputs returns at the mint or deposit
// input before any signature is verified, so the transaction must be refused elsewhere ----------

func runMixed(c *vh.Ctx, cs Case) {
	b := buildBase(cs, nil)
	extraIn := &common.Input{}
	if cs.Kind == "mixed-mint" {
		extraIn.Mint = &common.MintData{Group: "UNIVERSAL", Batch: 1, Amount: common.NewInteger(5)}
	} else {
		extraIn.Deposit = &common.DepositData{Chain: assetID(), AssetKey: "k", Transaction: "t", Index: 0, Amount: common.NewInteger(5)}
	}
	if cs.Sum == 0 {
		b.tx.Inputs = append(b.tx.Inputs, extraIn)
	} else {
		b.tx.Inputs = append([]*common.Input{extraIn}, b.tx.Inputs...)
	}
	b.tx.Outputs[0].Amount = common.NewInteger(5)
	ver := b.tx.AsVersioned()
	var h crypto.Hash
	var err error
	pan, _ := vh.Catch(func() { h = ver.PayloadHash() })
	d := "panic"
	if !pan {
		maps, _ := makeSigs(cs, b, h)
		for len(maps) < len(b.tx.Inputs) {
			maps = append(maps, map[uint16]*crypto.Signature{})
		}
		ver.SignaturesMap = maps
		pan, _ = vh.Catch(func() { err = ver.Validate(b.st, 1700000000000000000, false) })
		d = decision(pan, err)
	}
	emit(c, cs.Kind, fmt.Sprintf("%s|%d|%s", cs.Kind, cs.Sum, cs.Privs[0]), d == "reject", cs, "")
	if d == "accept" {
		fail(c, "script-input-spent-beside-"+cs.Kind, "a transaction spending a script input without signatures next to a mint/deposit input was accepted", cs)
	}
}

// ---- crypto.AggregateVerify directly --------------------------------------------------------

func runAggV(c *vh.Ctx, cs Case) {
	mb, _ := hex.DecodeString(cs.Msg)
	var m crypto.Hash
	copy(m[:], mb)
	var privs []crypto.Key
	var pubs []*crypto.Key
	for _, p := range cs.Privs {
		k := keyFromHex(p)
		privs = append(privs, k)
		pub := k.Public()
		pubs = append(pubs, &pub)
	}
	ag := cs.Agg
	holder := privs[0]
	if ag.Forge != "" && ag.ForgeBy < len(privs) {
		holder = privs[ag.ForgeBy]
	}
	for j, kh := range cs.KeyHex {
		if kh != "" && j < len(pubs) {
			k := keyFromHex(kh)
			pubs[j] = &k
		}
	}
	sg := aggSignature(ag, func(pos int) *crypto.Key { p := privs[pos]; return &p }, len(privs), holder, pubs, m)
	sig := &sg
	var got bool
	pan, _ := vh.Catch(func() { got = crypto.AggregateVerify(sig, pubs, ag.Signers, m) == nil })
	js, _ := json.Marshal(cs)
	ref := refAggregateVerify(sig, pubs, ag.Signers, m)
	coq := ""
	if !pan {
		coq = vh.App("CAggV", vh.Bool(ref), vh.Bool(got))
	}
	emit(c, cs.Kind, string(js), got, cs, coq)
	if got && !ref {
		fail(c, "aggregate-verify-accepts-reference-rejects", "crypto.AggregateVerify accepts an aggregate the independent transcription of the scheme refuses ("+cs.Kind+")", cs)
	}
	want := !ag.Other && ag.Tamper == 0 && ag.Forge == "" && sameSet(ag.Signers, ag.Actual)
	if pan {
		fail(c, "aggregate-verify-panic", "crypto.AggregateVerify panicked", cs)
	} else if ref != want {
		c.Note(fmt.Sprintf("harness: reference aggregate verdict %v differs from the scenario %v (%s)", ref, want, cs.Kind))
	} else if got && !want { // a refused honest aggregate is a correspondence break (CAggV), not a property failure
		fail(c, "aggregate-verify-vs-scenario", fmt.Sprintf("AggregateVerify accepted=%v for an aggregate the scenario made honest=%v (%s)", got, want, cs.Kind), cs)
	}
}

// ---- histories: the same keys / transactions presented several times in one process ---------

func runMemo(c *vh.Ctx, cs Case) {
	replayAs = cs
	memoLocks = map[string]crypto.Hash{}
	defer func() { replayAs = nil; memoLocks = nil }()
	c.Count(cs.Kind)
	for _, st := range cs.Steps {
		run(c, st)
	}
}

func run(c *vh.Ctx, cs Case) {
	switch cs.Op {
	case "memo":
		runMemo(c, cs)
	case "aggv":
		runAggV(c, cs)
	case "mixed":
		runMixed(c, cs)
	case "inputs":
		runInputs(c, cs)
	case "script":
		runScript(c, cs)
	case "verify", "batch":
		runVerify(c, cs)
	case "dupout":
		runDupOut(c, cs)
	default:
		panic("unknown op " + cs.Op)
	}
}

func main() {
	c := vh.Start("C02")
	c.Rep.Rule = "corpus of boundary scenarios, then scenarios drawn from one SplitMix64 stream: 1..4 inputs, key lists 1..64 " +
		"(fresh keys; the same key in two inputs; pointer aliasing and repeated keys for the model only), thresholds 0..64 and malformed scripts, " +
		"signature maps with exactly/under/over threshold entries, forged, swapped, cross-input, wrong-message, byte-tampered, duplicated, nil, " +
		"out-of-range entries, missing maps; aggregate signatures over random signer subsets with unsorted/duplicate/out-of-range/superset/subset claims; " +
		"forced transaction types and non-script UTXO types through the hook; a script input beside a mint/deposit input; outputs repeating a key; " +
		"Script.Validate; Verify/BatchVerify entries with known discrete logs plus small-order, mixed-order and non-canonical encodings. " +
		"linear-cancellation families (s_i+d_i or R_i+d_i*B with the d_i cancelling for equal / period-2 / small guessed batch coefficients), through BatchVerify and through Validate on multisig inputs; " +
		"histories in one process (genuine transaction / signature 1-3 times, then every single-signature, payload and signer-list tamper each followed by the " +
		"genuine one again, and the control order tampered-first), through Validate and through Verify/BatchVerify/AggregateVerify; " +
		"lock histories (accepted transaction, its inputs then locked in the store for the payload hash / some of them / for another hash with fork, " +
		"then the same payload with flipped, random, missing, wrong-payload signatures or a random aggregate, then the honest one again). " +
		"Non-trivial = the structural stage passed (signature verification was reached) or the case was accepted; distinct by the whole scenario."
	if c.Replay != "" {
		var cs Case
		c.ReplayCase(&cs)
		run(c, cs)
		c.Finish()
		return
	}
	for _, cs := range corpus() {
		run(c, cs)
	}
	n := c.Scale(420, 12000)
	for i := 0; i < n; i++ {
		run(c, gen(c))
	}
	c.Finish()
}
