package main

import (
	"encoding/hex"
	"fmt"
	"math/big"
	"sort"

	"github.com/MixinNetwork/mixin/crypto"

	"verifharness/vh"
)

// ---- scenario generators ------------------------------------------------------------

type pool struct {
	r     *vh.Rand
	privs []string
}

func (p *pool) fresh() int {
	k := newPriv(p.r)
	p.privs = append(p.privs, hex.EncodeToString(k[:]))
	return len(p.privs) - 1
}

func keyCount(r *vh.Rand) int {
	switch r.Intn(10) {
	case 0, 1:
		return 1
	case 2, 3:
		return r.Range(2, 3)
	case 4, 5, 6:
		return r.Range(2, 8)
	case 7:
		return r.Range(9, 24)
	case 8:
		return r.Range(25, 63)
	default:
		return []int{64, 63, 33, 32}[r.Intn(4)]
	}
}

func thresholdFor(r *vh.Rand, n int) int {
	switch r.Intn(12) {
	case 0:
		return 0
	case 1:
		return n
	case 2:
		if n < 64 {
			return r.Range(n+1, 64) // cannot be met
		}
		return 64
	case 3:
		return 1
	default:
		return r.Range(1, n)
	}
}

func scriptHex(t int) string { return fmt.Sprintf("fffe%02x", t) }

func malformedScript(r *vh.Rand) string {
	switch r.Intn(6) {
	case 0:
		return ""
	case 1:
		return "fffe"
	case 2:
		return fmt.Sprintf("fffe%02x00", r.Intn(3))
	case 3:
		return fmt.Sprintf("fe%02x01", r.Intn(256))
	case 4:
		return fmt.Sprintf("ff%02x01", r.Intn(254))
	default:
		return fmt.Sprintf("fffe%02x", r.Range(65, 255))
	}
}

func inputCount(r *vh.Rand) int {
	x := r.Intn(20)
	switch {
	case x < 7:
		return 1
	case x < 14:
		return 2
	case x < 18:
		return 3
	default:
		return 4
	}
}

// chooses k distinct values of 0..n-1, sorted
func subset(r *vh.Rand, n, k int) []int {
	if k > n {
		k = n
	}
	perm := make([]int, n)
	for i := range perm {
		perm[i] = i
	}
	for i := 0; i < k; i++ {
		j := i + r.Intn(n-i)
		perm[i], perm[j] = perm[j], perm[i]
	}
	out := append([]int{}, perm[:k]...)
	sort.Ints(out)
	return out
}

func baseInputs(r *vh.Rand, p *pool, nIn int, shareKeys bool) ([]InputSpec, []int) {
	var ins []InputSpec
	var ts []int
	for i := 0; i < nIn; i++ {
		n := keyCount(r)
		if nIn >= 3 && n > 24 {
			n = r.Range(1, 24)
		}
		in := InputSpec{Type: 0x00}
		if r.Chance(1, 12) {
			in.Type = 0xa6
		}
		for j := 0; j < n; j++ {
			if shareKeys && i > 0 && r.Chance(1, 3) {
				prev := ins[r.Intn(i)].Keys
				cand := prev[r.Intn(len(prev))]
				dup := false
				for _, k := range in.Keys {
					dup = dup || k == cand
				}
				if !dup {
					in.Keys = append(in.Keys, cand)
					continue
				}
			}
			in.Keys = append(in.Keys, p.fresh())
		}
		t := thresholdFor(r, n)
		in.Script = scriptHex(t)
		ins = append(ins, in)
		ts = append(ts, t)
	}
	return ins, ts
}

func honestSigs(r *vh.Rand, in *InputSpec, count int) {
	in.Sigs = nil
	for _, idx := range subset(r, len(in.Keys), count) {
		in.Sigs = append(in.Sigs, SigSpec{Idx: idx, Signer: in.Keys[idx]})
	}
}

var mapKinds = []string{"honest", "honest", "honest", "exact", "short", "forged", "swapped", "crossinput", "wrongmsg",
	"tampered", "duplicated", "nil", "outofrange", "fewmaps", "samekey", "threshold0", "malformed-script",
	"alias", "dupkeys", "forcedtype", "othertypes", "surplus-bad"}

func genMap(r *vh.Rand, tampers int) Case {
	kind := mapKinds[r.Intn(len(mapKinds))]
	p := &pool{r: r}
	nIn := inputCount(r)
	if kind == "crossinput" && nIn < 2 {
		nIn = 2
	}
	ins, ts := baseInputs(r, p, nIn, kind == "samekey")
	for i := range ins {
		t, n := ts[i], len(ins[i].Keys)
		cnt := t
		if kind != "exact" && r.Chance(1, 3) && t < n {
			cnt = r.Range(t, n)
		}
		if cnt > n {
			cnt = n
		}
		honestSigs(r, &ins[i], cnt)
	}
	cs := Case{Op: "inputs", Kind: kind, NMaps: nIn, TxType: -1, Tampers: tampers, TSeed: r.U64(),
		Extra: hex.EncodeToString(r.Bytes(r.Intn(24)))}
	v := r.Intn(nIn) // the input that is attacked
	in := &ins[v]
	pick := func() int {
		if len(in.Sigs) == 0 {
			return -1
		}
		return r.Intn(len(in.Sigs))
	}
	switch kind {
	case "short":
		if ts[v] >= 1 {
			honestSigs(r, in, ts[v]-1)
		}
	case "forged":
		if q := pick(); q >= 0 {
			in.Sigs[q].Signer = p.fresh()
		}
	case "swapped":
		if len(in.Sigs) >= 2 {
			a := r.Intn(len(in.Sigs))
			b := (a + 1 + r.Intn(len(in.Sigs)-1)) % len(in.Sigs)
			in.Sigs[a].Signer, in.Sigs[b].Signer = in.Sigs[b].Signer, in.Sigs[a].Signer
		}
	case "crossinput":
		o := &ins[(v+1)%nIn]
		if q := pick(); q >= 0 {
			in.Sigs[q].Signer = o.Keys[in.Sigs[q].Idx%len(o.Keys)]
		}
	case "wrongmsg":
		if q := pick(); q >= 0 {
			in.Sigs[q].Other = true
		}
	case "tampered":
		if q := pick(); q >= 0 {
			in.Sigs[q].Tamper = 1 + r.Intn(64)
			in.Sigs[q].Xor = 1 << uint(r.Intn(8))
		}
	case "duplicated":
		// one owner's signature bytes reused under another index of the same input
		if len(in.Sigs) >= 2 {
			q := 1 + r.Intn(len(in.Sigs)-1)
			in.Sigs[q].CopyOf = 1 + r.Intn(q)
		} else if len(in.Keys) >= 2 && len(in.Sigs) == 1 {
			other := (in.Sigs[0].Idx + 1) % len(in.Keys)
			in.Sigs = append(in.Sigs, SigSpec{Idx: other, Signer: in.Keys[other], CopyOf: 1})
		}
	case "nil":
		if q := pick(); q >= 0 {
			in.Sigs[q].Nil = true
		}
		cs.TxType = 0 // a nil pointer cannot be encoded: hook only
	case "outofrange":
		idx := len(in.Keys) + []int{0, 1, 2, 255, 65535 - len(in.Keys)}[r.Intn(5)]
		sp := SigSpec{Idx: idx, Signer: in.Keys[r.Intn(len(in.Keys))]}
		if r.Bool() && len(in.Sigs) > 0 {
			in.Sigs[r.Intn(len(in.Sigs))] = sp // replaces a needed entry
		} else {
			in.Sigs = append(in.Sigs, sp)
		}
	case "fewmaps":
		cs.NMaps = []int{nIn - 1, nIn + 1, 0, -1}[r.Intn(4)]
		if r.Bool() {
			cs.TxType = []int{0, 9, 7}[r.Intn(3)]
		}
	case "threshold0":
		in.Script = scriptHex(0)
		ts[v] = 0
		if r.Bool() {
			in.Sigs = nil
		}
		if r.Chance(1, 3) {
			for i := range ins {
				ins[i].Script = scriptHex(0)
				ins[i].Sigs = nil
			}
			if r.Bool() {
				cs.TxType = []int{9, 7, 0x12}[r.Intn(3)]
			}
		}
	case "malformed-script":
		in.Script = malformedScript(r)
	case "alias":
		// a later input shares a key POINTER with input 0 (cannot come out of a store)
		if nIn < 2 {
			extra, _ := baseInputs(r, p, 1, false)
			honestSigs(r, &extra[0], len(extra[0].Keys))
			ins = append(ins, extra[0])
			nIn = 2
			cs.NMaps = 2
		}
		id := 0
		for i := range ins {
			ins[i].Ptr = make([]int, len(ins[i].Keys))
			for j := range ins[i].Ptr {
				ins[i].Ptr[j] = id
				id++
			}
		}
		a, b := &ins[0], &ins[1]
		ja, jb := r.Intn(len(a.Keys)), r.Intn(len(b.Keys))
		b.Keys[jb] = a.Keys[ja]
		b.Ptr[jb] = a.Ptr[ja]
		for q := range b.Sigs {
			if b.Sigs[q].Idx == jb {
				b.Sigs[q].Signer = b.Keys[jb]
			}
		}
		if r.Bool() { // the first input's signature under the shared pointer is bad, the later one good
			found := false
			for q := range a.Sigs {
				if a.Sigs[q].Idx == ja {
					a.Sigs[q].Other = true
					found = true
				}
			}
			if !found {
				a.Sigs = append(a.Sigs, SigSpec{Idx: ja, Signer: a.Keys[ja], Other: true})
			}
			has := false
			for q := range b.Sigs {
				has = has || b.Sigs[q].Idx == jb
			}
			if !has {
				b.Sigs = append(b.Sigs, SigSpec{Idx: jb, Signer: b.Keys[jb]})
			}
		}
		cs.Tampers = 0
	case "dupkeys":
		// a key list repeating a key value (no validated transaction can create it)
		if len(in.Keys) >= 2 {
			in.Keys[1] = in.Keys[0]
			honestSigs(r, in, ts[v])
			if ts[v] > len(in.Keys) {
				honestSigs(r, in, len(in.Keys))
			}
		}
	case "forcedtype":
		cs.TxType = []int{0, 7, 9, 0x12, 1, 0xff}[r.Intn(6)]
		if r.Bool() {
			cs.NMaps = r.Intn(nIn + 1)
		}
	case "othertypes":
		in.Type = []int{0xa3, 0xa4, 0xaa, 0xa1, 0xa9, 0xb1, 0x01}[r.Intn(7)]
		cs.TxType = []int{0, 7, 9, 0x12}[r.Intn(4)]
		if r.Bool() {
			in.Keys = in.Keys[:0]
			in.Sigs = nil
			in.Script = ""
		}
		if r.Chance(1, 3) {
			for i := range ins {
				ins[i].Sigs = nil
			}
		}
	case "surplus-bad":
		// threshold met by good signatures, one more supplied entry is invalid
		used := map[int]bool{}
		for _, s := range in.Sigs {
			used[s.Idx] = true
		}
		for j := range in.Keys {
			if !used[j] {
				in.Sigs = append(in.Sigs, SigSpec{Idx: j, Signer: in.Keys[j], Other: true})
				break
			}
		}
	}
	cs.Inputs = ins
	cs.Privs = p.privs
	return cs
}

var aggKinds = []string{"agg-honest", "agg-honest", "agg-honest", "agg-exact", "agg-short", "agg-unsorted", "agg-dup",
	"agg-outofrange", "agg-negative", "agg-superset", "agg-subset", "agg-shift", "agg-wrongmsg", "agg-tampered",
	"agg-empty", "agg-threshold0", "agg-forcedtype", "agg-othertypes", "agg-boundary", "agg-samekey"}

func genAgg(r *vh.Rand, tampers int) Case {
	kind := aggKinds[r.Intn(len(aggKinds))]
	p := &pool{r: r}
	nIn := inputCount(r)
	if kind == "agg-boundary" && nIn < 2 {
		nIn = 2
	}
	ins, ts := baseInputs(r, p, nIn, kind == "agg-samekey")
	v := r.Intn(nIn)
	if kind == "agg-threshold0" {
		ins[v].Script = scriptHex(0)
		ts[v] = 0
	}
	var actual []int
	off := 0
	offs := make([]int, nIn)
	for i := range ins {
		offs[i] = off
		n, t := len(ins[i].Keys), ts[i]
		cnt := t
		if kind != "agg-exact" && kind != "agg-boundary" && r.Chance(1, 3) && t < n {
			cnt = r.Range(t, n)
		}
		if kind == "agg-short" && i == v && t >= 1 {
			cnt = t - 1
		}
		if kind == "agg-threshold0" && i == v && r.Bool() {
			cnt = 0
		}
		for _, j := range subset(r, n, cnt) {
			actual = append(actual, off+j)
		}
		off += n
	}
	total := off
	if kind == "agg-boundary" {
		// the attacked input is exactly one signer short, the neighbouring key of the
		// next / previous input signs instead
		actual = nil
		for i := range ins {
			n, t := len(ins[i].Keys), ts[i]
			if t > n {
				t = n
			}
			want := t
			if i == v && t >= 1 {
				want = t - 1
			}
			// take the window's first keys; the neighbour takes its edge key
			for j := 0; j < want; j++ {
				actual = append(actual, offs[i]+j)
			}
		}
		nb := offs[v] + len(ins[v].Keys) // first key of the next input
		if v == nIn-1 {
			nb = offs[v] - 1 // last key of the previous input
		}
		if nb >= 0 && nb < total {
			actual = append(actual, nb)
		}
		sort.Ints(actual)
		actual = dedup(actual)
	}
	claimed := append([]int{}, actual...)
	cs := Case{Op: "inputs", Kind: kind, NMaps: -1, TxType: -1, Tampers: tampers, TSeed: r.U64(),
		Extra: hex.EncodeToString(r.Bytes(r.Intn(24)))}
	ag := &AggSpec{Seed: hex.EncodeToString(r.Bytes(32)), By: signedBy(r)}
	switch kind {
	case "agg-unsorted":
		if len(claimed) >= 2 {
			a := r.Intn(len(claimed) - 1)
			claimed[a], claimed[a+1] = claimed[a+1], claimed[a]
		}
	case "agg-dup":
		if len(claimed) >= 1 {
			a := r.Intn(len(claimed))
			claimed = append(claimed[:a+1], claimed[a:]...)
		}
	case "agg-outofrange":
		claimed = append(claimed, total+[]int{0, 1, 7, 65535 - total, 65536 - total, 70000}[r.Intn(6)])
	case "agg-negative":
		claimed = append([]int{-1 - r.Intn(2)}, claimed...)
	case "agg-superset":
		in := map[int]bool{}
		for _, s := range claimed {
			in[s] = true
		}
		for tries := 0; tries < 8; tries++ {
			x := r.Intn(total)
			if !in[x] {
				claimed = append(claimed, x)
				sort.Ints(claimed)
				break
			}
		}
	case "agg-subset":
		if len(claimed) >= 2 {
			a := r.Intn(len(claimed))
			claimed = append(claimed[:a], claimed[a+1:]...)
		}
	case "agg-shift":
		for i := range claimed {
			claimed[i]++
		}
	case "agg-wrongmsg":
		ag.Other = true
	case "agg-tampered":
		ag.Tamper = 1 + r.Intn(64)
		ag.Xor = 1 << uint(r.Intn(8))
	case "agg-empty":
		claimed, actual = nil, nil
		if r.Bool() {
			for i := range ins {
				ins[i].Script = scriptHex(0)
			}
			if r.Bool() {
				cs.TxType = []int{9, 7}[r.Intn(2)]
			}
		}
	case "agg-forcedtype":
		cs.TxType = []int{0, 7, 9, 0x12, 1}[r.Intn(5)]
	case "agg-othertypes":
		ins[v].Type = []int{0xa3, 0xa4, 0xaa, 0xa1}[r.Intn(4)]
		cs.TxType = []int{0, 7, 9, 0x12}[r.Intn(4)]
	}
	ag.Signers, ag.Actual = claimed, actual
	cs.Agg = ag
	cs.Inputs = ins
	cs.Privs = p.privs
	return cs
}

func dedup(a []int) []int {
	var out []int
	for i, x := range a {
		if i == 0 || x != a[i-1] {
			out = append(out, x)
		}
	}
	return out
}

func genScript(r *vh.Rand) Case {
	var s string
	switch r.Intn(4) {
	case 0:
		s = malformedScript(r)
	case 1:
		s = hex.EncodeToString(r.Bytes(r.Intn(5)))
	default:
		s = scriptHex(r.Range(0, 66))
	}
	sum := r.Range(-1, 70)
	if t, ok := scriptThreshold(s); ok && r.Bool() {
		sum = t + r.Range(-1, 1)
	}
	return Case{Op: "script", Kind: "script", Script: s, Sum: sum, TxType: -1}
}

var schModes = []string{"honest", "honest", "honest", "honest", "repo", "repo", "repo", "s+1", "s+l", "otherR", "otherKey", "otherMsg", "badR",
	"torsionR", "torsionKey", "mixedR", "mixedKey", "noncanonR"}

func genSch(r *vh.Rand, batch bool) Case {
	n := 1
	if batch {
		n = []int{0, 1, 2, 2, 3, 4, 6, 9}[r.Intn(8)]
	}
	cs := Case{Op: "verify", Kind: "verify", Msg: hex.EncodeToString(r.Bytes(32)), TxType: -1}
	if batch {
		cs.Op, cs.Kind = "batch", "batch"
	}
	allGood := batch && r.Bool()
	for i := 0; i < n; i++ {
		a, k := newPriv(r), newPriv(r)
		mode := schModes[r.Intn(len(schModes))]
		if allGood {
			mode = []string{"honest", "repo"}[r.Intn(2)]
		}
		cs.Entries = append(cs.Entries, SchEntry{Priv: hex.EncodeToString(a[:]), Nonce: hex.EncodeToString(k[:]), Mode: mode})
	}
	return cs
}

// ---- linear-cancellation families ----------------------------------------------------------
// k >= 2 valid signatures over one message are each made individually invalid by a known
// amount, the amounts chosen so that sum z_i*delta_i vanishes whenever the batch coefficients
// are all equal / repeat with period 2 / are the guessed small weights.

func rndDelta(r *vh.Rand) *big.Int {
	for {
		v := r.Big(252)
		v.Mod(v, ordL)
		if v.Sign() != 0 {
			return v
		}
	}
}

func negSum(vs []*big.Int) *big.Int {
	t := new(big.Int)
	for _, v := range vs {
		t.Add(t, v)
	}
	t.Neg(t)
	return t.Mod(t, ordL)
}

// n values summing to 0 mod l, none of them 0
func zeroSum(r *vh.Rand, n int) []*big.Int {
	for {
		var vs []*big.Int
		for i := 0; i < n-1; i++ {
			vs = append(vs, rndDelta(r))
		}
		last := negSum(vs)
		if last.Sign() != 0 {
			return append(vs, last)
		}
	}
}

var cancelFamilies = []string{"cancel-pair", "cancel-sum", "cancel-period2", "cancel-weighted", "cancel-R", "cancel-mixed"}

func genCancelBatch(r *vh.Rand, fam string) Case {
	if fam == "" {
		fam = cancelFamilies[r.Intn(len(cancelFamilies))]
	}
	var ds, dr, zs []*big.Int
	n := 2
	same := func(n int) []*big.Int {
		z := r.Big(128)
		z.Add(z, big.NewInt(1))
		out := make([]*big.Int, n)
		for i := range out {
			out[i] = z
		}
		return out
	}
	switch fam {
	case "cancel-pair":
		ds, zs = zeroSum(r, 2), same(2)
	case "cancel-sum":
		n = r.Range(3, 6)
		ds, zs = zeroSum(r, n), same(n)
	case "cancel-period2":
		n = []int{4, 6, 8}[r.Intn(3)]
		ev, od := zeroSum(r, n/2), zeroSum(r, n/2)
		pq := []*big.Int{r.Big(128), new(big.Int).Add(r.Big(127), big.NewInt(3))}
		for i := 0; i < n; i++ {
			if i%2 == 0 {
				ds = append(ds, ev[i/2])
			} else {
				ds = append(ds, od[i/2])
			}
			zs = append(zs, pq[i%2])
		}
	case "cancel-weighted":
		n = r.Range(2, 4)
		for {
			zs = nil
			for i := 0; i < n; i++ {
				zs = append(zs, big.NewInt(int64(r.Range(1, 4))))
			}
			if !(n == 2 && zs[0].Int64() == 1 && zs[1].Int64() == 3) {
				break
			}
		}
		acc := new(big.Int)
		for i := 0; i < n-1; i++ {
			d := rndDelta(r)
			ds = append(ds, d)
			acc.Add(acc, new(big.Int).Mul(zs[i], d))
		}
		inv := new(big.Int).ModInverse(zs[n-1], ordL)
		last := acc.Neg(acc).Mul(acc, inv)
		ds = append(ds, last.Mod(last, ordL))
	case "cancel-R":
		n = r.Range(2, 4)
		dr, zs = zeroSum(r, n), same(n)
	case "cancel-mixed":
		d := rndDelta(r)
		ds = []*big.Int{d, nil}
		dr = []*big.Int{nil, d}
		zs = same(2)
	}
	cs := Case{Op: "batch", Kind: fam, Msg: hex.EncodeToString(r.Bytes(32)), TxType: -1}
	for i := 0; i < n; i++ {
		a, k := newPriv(r), newPriv(r)
		e := SchEntry{Priv: hex.EncodeToString(a[:]), Nonce: hex.EncodeToString(k[:]), Mode: "honest"}
		if i < len(ds) && ds[i] != nil {
			e.DS = ds[i].String()
		}
		if i < len(dr) && dr[i] != nil {
			e.DR = dr[i].String()
		}
		cs.Entries = append(cs.Entries, e)
		cs.Zs = append(cs.Zs, zs[i].String())
	}
	return cs
}

var cancelInputKinds = []string{"cancel-in-pair", "cancel-in-sum", "cancel-in-R", "cancel-in-cross", "cancel-in-mixed"}

// the same through the whole validation: a multisig input whose needed signatures are
// perturbed with amounts that cancel under equal batch coefficients
func genCancelInputs(r *vh.Rand, kind string) Case {
	if kind == "" {
		kind = cancelInputKinds[r.Intn(len(cancelInputKinds))]
	}
	p := &pool{r: r}
	nIn := 1 + r.Intn(2)
	if kind == "cancel-in-cross" {
		nIn = 2
	}
	var ins []InputSpec
	for i := 0; i < nIn; i++ {
		n := r.Range(2, 8)
		in := InputSpec{Type: 0}
		for j := 0; j < n; j++ {
			in.Keys = append(in.Keys, p.fresh())
		}
		t := r.Range(2, n)
		if kind == "cancel-in-sum" && n >= 3 && t < 3 {
			t = 3
		}
		in.Script = scriptHex(t)
		honestSigs(r, &in, t)
		ins = append(ins, in)
	}
	set := func(sp *SigSpec, d *big.Int, onR bool) {
		if onR {
			sp.DR = d.String()
		} else {
			sp.DS = d.String()
		}
	}
	v := r.Intn(nIn)
	in := &ins[v]
	switch kind {
	case "cancel-in-pair", "cancel-in-R", "cancel-in-mixed":
		idx := subset(r, len(in.Sigs), 2)
		d := zeroSum(r, 2)
		switch kind {
		case "cancel-in-pair":
			set(&in.Sigs[idx[0]], d[0], false)
			set(&in.Sigs[idx[1]], d[1], false)
		case "cancel-in-R":
			set(&in.Sigs[idx[0]], d[0], true)
			set(&in.Sigs[idx[1]], d[1], true)
		default: // delta = -ds on one entry, +dr on the other
			set(&in.Sigs[idx[0]], d[0], false)
			set(&in.Sigs[idx[1]], d[0], true)
		}
	case "cancel-in-sum":
		m := len(in.Sigs)
		if m > 3 {
			m = r.Range(3, m)
		}
		idx := subset(r, len(in.Sigs), m)
		d := zeroSum(r, len(idx))
		for q, i := range idx {
			set(&in.Sigs[i], d[q], false)
		}
	case "cancel-in-cross":
		d := zeroSum(r, 2)
		set(&ins[0].Sigs[r.Intn(len(ins[0].Sigs))], d[0], false)
		set(&ins[1].Sigs[r.Intn(len(ins[1].Sigs))], d[1], false)
	}
	return Case{Op: "inputs", Kind: kind, Inputs: ins, Privs: p.privs, NMaps: nIn, TxType: -1,
		Extra: hex.EncodeToString(r.Bytes(r.Intn(8)))}
}

// ---- histories: genuine first, then tampered copies of the SAME keys / payload ---------------
// A fault that remembers a successful verification (verified (key, message) pairs, verified
// transactions by payload hash, decoded points, signatures seen) accepts a tampered copy that
// comes after the genuine one.  order "genuine-first": genuine x reps, then each tamper followed
// by the genuine one again; order "tamper-first": every tamper on never-seen keys, genuine last.

func cloneCase(cs Case) Case {
	out := cs
	out.Inputs = nil
	for _, in := range cs.Inputs {
		c := in
		c.Keys = append([]int{}, in.Keys...)
		c.Sigs = append([]SigSpec{}, in.Sigs...)
		out.Inputs = append(out.Inputs, c)
	}
	if cs.Agg != nil {
		a := *cs.Agg
		a.Signers = append([]int{}, cs.Agg.Signers...)
		a.Actual = append([]int{}, cs.Agg.Actual...)
		out.Agg = &a
	}
	out.Privs = append([]string{}, cs.Privs...)
	return out
}

func history(genuine Case, tampers []Case, order string, reps int) []Case {
	var steps []Case
	if order == "tamper-first" {
		steps = append(steps, tampers...)
		steps = append(steps, genuine)
		return steps
	}
	for i := 0; i < reps; i++ {
		steps = append(steps, genuine)
	}
	for _, t := range tampers {
		steps = append(steps, t, genuine)
	}
	return steps
}

func flipHex(r *vh.Rand, h string) string {
	b, _ := hex.DecodeString(h)
	if len(b) == 0 {
		return "01"
	}
	b[r.Intn(len(b))] ^= byte(1 << uint(r.Intn(8)))
	return hex.EncodeToString(b)
}

// shape: "single" (one input, threshold 1 of >= 2 keys, one signature), "" random
func genMemoInputs(r *vh.Rand, order string, agg bool, shape string, maxTampers int) Case {
	p := &pool{r: r}
	nIn := inputCount(r)
	if shape == "single" {
		nIn = 1
	}
	var ins []InputSpec
	var ts []int
	for i := 0; i < nIn; i++ {
		n := r.Range(1, 6)
		t := r.Range(1, n)
		if shape == "single" {
			n, t = r.Range(2, 4), 1
		}
		in := InputSpec{Type: 0, Script: scriptHex(t)}
		for j := 0; j < n; j++ {
			in.Keys = append(in.Keys, p.fresh())
		}
		ins = append(ins, in)
		ts = append(ts, t)
	}
	base := Case{Op: "inputs", Kind: "memo-genuine", NMaps: nIn, TxType: -1, Extra: hex.EncodeToString(r.Bytes(r.Range(1, 12)))}
	var tampers []Case
	add := func(kind string, f func(c *Case)) {
		t := cloneCase(base)
		t.Kind = kind
		f(&t)
		tampers = append(tampers, t)
	}
	if !agg {
		for i := range ins {
			honestSigs(r, &ins[i], ts[i])
		}
		base.Inputs, base.Privs = ins, p.privs
		for i := range ins {
			for q := range ins[i].Sigs {
				i, q := i, q
				add("memo-flip", func(c *Case) {
					c.Inputs[i].Sigs[q].Tamper = 1 + r.Intn(64)
					c.Inputs[i].Sigs[q].Xor = 1 << uint(r.Intn(8))
				})
				add("memo-other-payload", func(c *Case) { c.Inputs[i].Sigs[q].Other = true })
				if nIn >= 2 { // the bytes of a signature another input carries
					o := (i + 1 + r.Intn(nIn-1)) % nIn
					os := ins[o].Sigs[r.Intn(len(ins[o].Sigs))]
					add("memo-other-input-sig", func(c *Case) { c.Inputs[i].Sigs[q].Signer = os.Signer })
				}
				if len(ins[i].Keys) >= 2 { // the same signature bytes under a different key of the list
					used := map[int]bool{}
					for _, s := range ins[i].Sigs {
						used[s.Idx] = true
					}
					free := -1
					for j := range ins[i].Keys {
						if !used[j] {
							free = j
						}
					}
					if free >= 0 {
						add("memo-same-sig-other-key", func(c *Case) { c.Inputs[i].Sigs[q].Idx = free })
					} else if len(ins[i].Sigs) >= 2 {
						q2 := (q + 1) % len(ins[i].Sigs)
						add("memo-same-sig-other-key", func(c *Case) {
							sg := c.Inputs[i].Sigs
							sg[q].Signer, sg[q2].Signer = sg[q2].Signer, sg[q].Signer
						})
					}
				}
			}
		}
	} else {
		base.NMaps = -1
		var actual []int
		off := 0
		total := 0
		for i := range ins {
			total += len(ins[i].Keys)
		}
		for i := range ins {
			for _, j := range subset(r, len(ins[i].Keys), ts[i]) {
				actual = append(actual, off+j)
			}
			off += len(ins[i].Keys)
		}
		base.Inputs, base.Privs = ins, p.privs
		base.Agg = &AggSpec{Signers: actual, Actual: actual, Seed: hex.EncodeToString(r.Bytes(32)), By: signedBy(r)}
		add("memo-agg-flip", func(c *Case) { c.Agg.Tamper = 1 + r.Intn(64); c.Agg.Xor = 1 << uint(r.Intn(8)) })
		add("memo-agg-other-payload", func(c *Case) { c.Agg.Other = true })
		in := map[int]bool{}
		for _, a := range actual {
			in[a] = true
		}
		for x := 0; x < total; x++ { // signer list grown by one key that did not sign, same signature bytes
			if !in[x] {
				x := x
				add("memo-agg-signers-grown", func(c *Case) {
					c.Agg.Signers = append(c.Agg.Signers, x)
					sort.Ints(c.Agg.Signers)
				})
				break
			}
		}
		// one signer exchanged for a neighbour of the same input (window counts unchanged)
		off = 0
		for i := range ins {
			n := len(ins[i].Keys)
			done := false
			for q, a := range actual {
				if a >= off && a < off+n {
					for x := off; x < off+n; x++ {
						if !in[x] {
							q, x := q, x
							add("memo-agg-signer-exchanged", func(c *Case) {
								c.Agg.Signers[q] = x
								sort.Ints(c.Agg.Signers)
							})
							done = true
							break
						}
					}
				}
				if done {
					break
				}
			}
			off += n
		}
	}
	// payload changed, the old signatures kept
	for k := 0; k < 2; k++ {
		add("memo-payload", func(c *Case) {
			old := base.Extra
			c.SigExtra = &old
			c.Extra = flipHex(r, base.Extra)
		})
	}
	if maxTampers > 0 && len(tampers) > maxTampers {
		// keep a random sample, always with a same-signature-other-key and a payload tamper
		var keep, rest []Case
		seen := map[string]bool{}
		for _, t := range tampers {
			if (t.Kind == "memo-same-sig-other-key" || t.Kind == "memo-payload" || t.Kind == "memo-agg-signers-grown") && !seen[t.Kind] {
				seen[t.Kind] = true
				keep = append(keep, t)
			} else {
				rest = append(rest, t)
			}
		}
		for len(keep) < maxTampers && len(rest) > 0 {
			j := r.Intn(len(rest))
			keep = append(keep, rest[j])
			rest = append(rest[:j], rest[j+1:]...)
		}
		tampers = keep
	}
	kind := "memo-validate-" + order
	if agg {
		kind = "memo-validate-agg-" + order
	}
	return Case{Op: "memo", Kind: kind, TxType: -1, Steps: history(base, tampers, order, r.Range(1, 3))}
}

// the same through crypto.Verify / BatchVerify / AggregateVerify
func genMemoCrypto(r *vh.Rand, order string) Case {
	msg := hex.EncodeToString(r.Bytes(32))
	n := r.Range(2, 4)
	var ents []SchEntry
	for i := 0; i < n; i++ {
		a, k := newPriv(r), newPriv(r)
		ents = append(ents, SchEntry{Priv: hex.EncodeToString(a[:]), Nonce: hex.EncodeToString(k[:]), Mode: "honest"})
	}
	var steps []Case
	ver := func(e SchEntry) Case {
		return Case{Op: "verify", Kind: "verify", Msg: msg, TxType: -1, Entries: []SchEntry{e}}
	}
	bat := func(es []SchEntry) Case {
		return Case{Op: "batch", Kind: "batch", Msg: msg, TxType: -1, Entries: append([]SchEntry{}, es...)}
	}
	modes := []string{"s+1", "otherKey", "otherMsg", "otherR", "mixedR", "mixedKey", "s+l"}
	reps := r.Range(1, 3)
	// aggregate over the same keys
	var privs []string
	for _, e := range ents {
		privs = append(privs, e.Priv)
	}
	actual := subset(r, n, r.Range(1, n-1))
	seed := hex.EncodeToString(r.Bytes(32))
	by := signedBy(r)
	aggv := func(kind string, f func(a *AggSpec)) Case {
		a := &AggSpec{Signers: append([]int{}, actual...), Actual: append([]int{}, actual...), Seed: seed, By: by}
		f(a)
		return Case{Op: "aggv", Kind: kind, Msg: msg, TxType: -1, Privs: privs, Agg: a}
	}
	genuineAgg := aggv("memo-aggv-genuine", func(*AggSpec) {})
	in := map[int]bool{}
	for _, a := range actual {
		in[a] = true
	}
	free := 0
	for in[free] {
		free++
	}
	aggTampers := []Case{
		aggv("memo-aggv-flip", func(a *AggSpec) { a.Tamper = 1 + r.Intn(64); a.Xor = 1 << uint(r.Intn(8)) }),
		aggv("memo-aggv-other-message", func(a *AggSpec) { a.Other = true }),
		aggv("memo-aggv-signers-grown", func(a *AggSpec) { a.Signers = append(a.Signers, free); sort.Ints(a.Signers) }),
		aggv("memo-aggv-signer-exchanged", func(a *AggSpec) { a.Signers[0] = free; sort.Ints(a.Signers) }),
	}
	if order == "tamper-first" {
		for i, e := range ents {
			for _, m := range modes {
				t := e
				t.Mode = m
				steps = append(steps, ver(t))
				if i == 0 {
					bad := append([]SchEntry{}, ents...)
					bad[r.Intn(n)].Mode = m
					steps = append(steps, bat(bad))
				}
			}
		}
		steps = append(steps, aggTampers...)
		for _, e := range ents {
			steps = append(steps, ver(e))
		}
		steps = append(steps, bat(ents), genuineAgg)
	} else {
		for k := 0; k < reps; k++ {
			for _, e := range ents {
				steps = append(steps, ver(e))
			}
			steps = append(steps, bat(ents), genuineAgg)
		}
		for i, e := range ents {
			for _, m := range modes {
				t := e
				t.Mode = m
				steps = append(steps, ver(t), ver(e))
				if i == 0 {
					bad := append([]SchEntry{}, ents...)
					bad[r.Intn(n)].Mode = m
					steps = append(steps, bat(bad), bat(ents))
				}
			}
		}
		// a batch that permutes genuine signatures among the genuine keys
		perm := append([]SchEntry{}, ents...)
		perm[0].Mode, perm[1].Mode = "otherKey", "otherKey"
		steps = append(steps, bat(perm), bat(ents))
		for _, t := range aggTampers {
			steps = append(steps, t, genuineAgg)
		}
	}
	return Case{Op: "memo", Kind: "memo-crypto-" + order, TxType: -1, Steps: steps}
}

// ---- lock histories --------------------------------------------------------------------------
// step 1: the honest transaction is validated and its inputs are then locked in the store
// (all of them for the payload hash / only some / all for ANOTHER hash, later validated with
// fork); step 2..n: the SAME payload (the payload hash does not cover signatures) with forged
// authorizations, each followed by the honest one again.  variant: all | some | other.
func genLockHistory(r *vh.Rand, agg bool, variant string) Case {
	p := &pool{r: r}
	nIn := inputCount(r)
	if variant == "some" && nIn < 2 {
		nIn = 2
	}
	var ins []InputSpec
	var ts []int
	total := 0
	for i := 0; i < nIn; i++ {
		n := r.Range(1, 5)
		t := r.Range(1, n)
		in := InputSpec{Type: 0, Script: scriptHex(t)}
		for j := 0; j < n; j++ {
			in.Keys = append(in.Keys, p.fresh())
		}
		honestSigs(r, &in, t)
		ins = append(ins, in)
		ts = append(ts, t)
		total += n
	}
	var signers []int
	off := 0
	for i := range ins {
		for _, s := range ins[i].Sigs {
			signers = append(signers, off+s.Idx)
		}
		off += len(ins[i].Keys)
	}
	sort.Ints(signers)
	base := Case{Op: "inputs", Kind: "lock-genuine", NMaps: nIn, TxType: -1, Extra: hex.EncodeToString(r.Bytes(r.Range(1, 12))),
		Inputs: ins, Privs: p.privs}
	if agg {
		base.NMaps = -1
		base.Agg = &AggSpec{Signers: signers, Actual: signers, Seed: hex.EncodeToString(r.Bytes(32)), By: signedBy(r)}
	}
	fork := variant == "other"
	first := cloneCase(base)
	first.Kind = "lock-first"
	first.LockAfter = variant
	if variant == "some" {
		first.LockSel = subset(r, nIn, r.Range(1, nIn-1))
	}
	later := cloneCase(base)
	later.Fork = fork
	var forged []Case
	add := func(kind string, f func(c *Case)) {
		t := cloneCase(later)
		t.Kind = kind
		f(&t)
		forged = append(forged, t)
	}
	if !agg {
		vi := r.Intn(nIn)
		add("lock-sig-flipped", func(c *Case) {
			q := r.Intn(len(c.Inputs[vi].Sigs))
			c.Inputs[vi].Sigs[q].Tamper = 1 + r.Intn(64)
			c.Inputs[vi].Sigs[q].Xor = 1 << uint(r.Intn(8))
		})
		add("lock-sigs-random", func(c *Case) {
			for i := range c.Inputs {
				for q := range c.Inputs[i].Sigs {
					c.Inputs[i].Sigs[q].Raw = hex.EncodeToString(r.Bytes(64))
				}
			}
		})
		add("lock-sigs-of-fresh-keys", func(c *Case) {
			for i := range c.Inputs {
				for q := range c.Inputs[i].Sigs {
					k := newPriv(r)
					c.Privs = append(c.Privs, hex.EncodeToString(k[:]))
					c.Inputs[i].Sigs[q].Signer = len(c.Privs) - 1
				}
			}
		})
		add("lock-too-few-maps", func(c *Case) { c.NMaps = []int{nIn - 1, 0}[r.Intn(2)]; c.TxType = 0 })
		add("lock-too-few-sigs", func(c *Case) { c.Inputs[vi].Sigs = c.Inputs[vi].Sigs[:len(c.Inputs[vi].Sigs)-1] })
		add("lock-empty-maps", func(c *Case) {
			for i := range c.Inputs {
				c.Inputs[i].Sigs = nil
			}
		})
		add("lock-sigs-other-payload", func(c *Case) {
			for i := range c.Inputs {
				for q := range c.Inputs[i].Sigs {
					c.Inputs[i].Sigs[q].Other = true
				}
			}
		})
		add("lock-random-aggregate", func(c *Case) {
			for i := range c.Inputs {
				c.Inputs[i].Sigs = nil
			}
			c.NMaps = -1
			c.Agg = &AggSpec{Signers: append([]int{}, signers...), Actual: nil, Seed: hex.EncodeToString(r.Bytes(32))}
		})
	} else {
		add("lock-random-aggregate", func(c *Case) { c.Agg.Actual = nil })
		add("lock-aggregate-flipped", func(c *Case) { c.Agg.Tamper = 1 + r.Intn(64); c.Agg.Xor = 1 << uint(r.Intn(8)) })
		add("lock-aggregate-other-payload", func(c *Case) { c.Agg.Other = true })
		add("lock-aggregate-empty-signers", func(c *Case) { c.Agg.Signers = nil; c.Agg.Actual = nil })
		add("lock-maps-instead-random", func(c *Case) {
			c.Agg = nil
			c.NMaps = nIn
			for i := range c.Inputs {
				for q := range c.Inputs[i].Sigs {
					c.Inputs[i].Sigs[q].Raw = hex.EncodeToString(r.Bytes(64))
				}
			}
		})
	}
	steps := []Case{first}
	if variant == "other" { // locked for another hash: refused without fork, whatever the signatures
		nf := cloneCase(base)
		nf.Kind = "lock-other-nofork"
		steps = append(steps, nf)
	}
	again := cloneCase(later)
	again.Kind = "lock-genuine-again"
	for _, f := range forged {
		steps = append(steps, f, again)
	}
	kind := "lock-history-" + variant
	if agg {
		kind = "lock-history-agg-" + variant
	}
	return Case{Op: "memo", Kind: kind, TxType: -1, Steps: steps}
}

// who produces the aggregate signature: the repository's AggregateSign or the harness' own
// transcription of the scheme (both must be accepted by AggregateVerify and by the transcription)
func signedBy(r *vh.Rand) string {
	if r.Bool() {
		return "ref"
	}
	return ""
}

// ---- rogue keys -------------------------------------------------------------------------------
// key list V_1..V_k plus the rogue key X - sum V_j (a valid prime-order point nobody knows the
// discrete log of); the attacker holds x only and claims ALL keys as signers with a signature
// made from c*x, c being his guess of a coefficient common to the whole set.
var forgeWeakenings = []string{"uniform", "plain", "noindex", "nokey", "notranscript", "full"}

func genRogue(r *vh.Rand, weak string, direct bool) Case {
	if weak == "" {
		weak = forgeWeakenings[r.Intn(len(forgeWeakenings))]
	}
	p := &pool{r: r}
	k := r.Range(1, 3)
	roguePos := k // the forged coefficient guesses refer to the last signer
	if weak == "uniform" || weak == "plain" || weak == "notranscript" {
		roguePos = r.Intn(k + 1)
	}
	var keys []int
	var victims []crypto.Key
	for pos := 0; pos <= k; pos++ {
		i := p.fresh()
		keys = append(keys, i)
		if pos != roguePos {
			victims = append(victims, keyFromHex(p.privs[i]).Public())
		}
	}
	rk := rogueKey(keyFromHex(p.privs[keys[roguePos]]), victims)
	keyHex := make([]string, k+1)
	keyHex[roguePos] = hex.EncodeToString(rk[:])
	ag := &AggSpec{Signers: seq(k + 1), Actual: nil, Forge: weak, ForgeBy: keys[roguePos], Seed: hex.EncodeToString(r.Bytes(32))}
	if direct {
		return Case{Op: "aggv", Kind: "rogue-direct-" + weak, Msg: hex.EncodeToString(r.Bytes(32)), TxType: -1,
			Privs: p.privs, KeyHex: keyHex, Agg: ag}
	}
	t := k + 1
	if r.Chance(1, 3) {
		t = r.Range(2, k+1)
	}
	in := InputSpec{Type: 0, Script: scriptHex(t), Keys: keys, KeyHex: keyHex}
	return Case{Op: "inputs", Kind: "rogue-" + weak, Inputs: []InputSpec{in}, Privs: p.privs, NMaps: -1, Agg: ag, TxType: -1,
		Extra: hex.EncodeToString(r.Bytes(r.Intn(8)))}
}

// the honest owners of a key list that contains a rogue key sign: accepted when they reach the threshold
func genRogueHonest(r *vh.Rand) Case {
	cs := genRogue(r, "uniform", false)
	in := &cs.Inputs[0]
	var honest []int
	for j := range in.Keys {
		if in.KeyHex[j] == "" {
			honest = append(honest, j)
		}
	}
	t := len(honest)
	if r.Bool() {
		t++ // one short: the rogue key cannot sign
	}
	in.Script = scriptHex(t)
	cs.Kind = "rogue-list-owners-sign"
	cs.Agg = &AggSpec{Signers: honest, Actual: honest, Seed: hex.EncodeToString(r.Bytes(32)), By: signedBy(r)}
	return cs
}

func genMemo(r *vh.Rand) Case {
	if r.Chance(2, 5) {
		return genLockHistory(r, r.Chance(1, 3), []string{"all", "all", "some", "other"}[r.Intn(4)])
	}
	order := "genuine-first"
	if r.Chance(1, 4) {
		order = "tamper-first"
	}
	switch r.Intn(8) {
	case 0, 1:
		return genMemoCrypto(r, order)
	case 2, 3:
		return genMemoInputs(r, order, true, "", 8)
	case 4:
		return genMemoInputs(r, order, false, "single", 8)
	default:
		return genMemoInputs(r, order, false, "", 10)
	}
}

func gen(c *vh.Ctx) Case {
	r := c.Rng
	tampers := 1
	if c.Tier == "thorough" {
		tampers = 2
	}
	x := r.Intn(100)
	switch {
	case x < 34:
		return genMap(r, tampers)
	case x < 39:
		return genMemo(r)
	case x < 43:
		return genCancelInputs(r, "")
	case x < 68:
		return genAgg(r, tampers)
	case x < 71:
		if r.Chance(1, 5) {
			return genRogueHonest(r)
		}
		return genRogue(r, "", r.Chance(1, 3))
	case x < 76:
		return genScript(r)
	case x < 85:
		return genSch(r, false)
	case x < 93:
		return genSch(r, true)
	case x < 98:
		return genCancelBatch(r, "")
	case x < 99:
		p := &pool{r: r}
		ins, _ := baseInputs(r, p, 1, false)
		ins[0].Script = scriptHex(1)
		ins[0].Type = 0
		return Case{Op: "mixed", Kind: []string{"mixed-mint", "mixed-deposit"}[r.Intn(2)], Inputs: ins, Privs: p.privs,
			NMaps: 1, TxType: -1, Sum: r.Intn(2)}
	default:
		p := &pool{r: r}
		ins, _ := baseInputs(r, p, 1, false)
		ins[0].Script = scriptHex(1)
		ins[0].Type = 0
		honestSigs(r, &ins[0], 1)
		return Case{Op: "dupout", Kind: "dupout", Inputs: ins, Privs: p.privs, NMaps: 1, TxType: -1}
	}
}

// ---- corpus of boundary scenarios ---------------------------------------------------------

func corpus() []Case {
	r := vh.NewRand(20260921, "C02-corpus")
	var out []Case
	mk := func(kind string, nkeys []int, ths []int, build func(p *pool, ins []InputSpec, cs *Case)) {
		p := &pool{r: r}
		var ins []InputSpec
		for i, n := range nkeys {
			in := InputSpec{Type: 0, Script: scriptHex(ths[i])}
			for j := 0; j < n; j++ {
				in.Keys = append(in.Keys, p.fresh())
			}
			ins = append(ins, in)
		}
		cs := Case{Op: "inputs", Kind: "corpus-" + kind, NMaps: len(ins), TxType: -1, Tampers: 2, TSeed: r.U64(), Extra: "c0ffee"}
		build(p, ins, &cs)
		cs.Inputs = ins
		cs.Privs = p.privs
		out = append(out, cs)
	}
	first := func(in *InputSpec, k int) {
		in.Sigs = nil
		for j := 0; j < k; j++ {
			in.Sigs = append(in.Sigs, SigSpec{Idx: j, Signer: in.Keys[j]})
		}
	}
	// the witness of C02_threshold_map_shared_pointer_refuted (Props/C02.v): input 0 = [K] threshold 1 with a bad
	// signature, input 1 = [K (same pointer), K'] threshold 2 with two good signatures.
	mk("alias-witness", []int{1, 2}, []int{1, 2}, func(p *pool, ins []InputSpec, cs *Case) {
		ins[1].Keys[0] = ins[0].Keys[0]
		ins[0].Ptr = []int{0}
		ins[1].Ptr = []int{0, 1}
		ins[0].Sigs = []SigSpec{{Idx: 0, Signer: ins[0].Keys[0], Other: true}}
		first(&ins[1], 2)
		cs.Tampers = 0
	})
	mk("one-of-one", []int{1}, []int{1}, func(p *pool, ins []InputSpec, cs *Case) { first(&ins[0], 1) })
	mk("zero-threshold-alone", []int{1}, []int{0}, func(p *pool, ins []InputSpec, cs *Case) {})
	mk("zero-threshold-beside", []int{2, 1}, []int{2, 0}, func(p *pool, ins []InputSpec, cs *Case) { first(&ins[0], 2) })
	mk("zero-threshold-gate", []int{2, 1}, []int{1, 0}, func(p *pool, ins []InputSpec, cs *Case) { first(&ins[0], 1) })
	mk("64-of-64", []int{64}, []int{64}, func(p *pool, ins []InputSpec, cs *Case) { first(&ins[0], 64) })
	mk("63-of-64", []int{64}, []int{64}, func(p *pool, ins []InputSpec, cs *Case) { first(&ins[0], 63) })
	mk("index-equals-len", []int{2}, []int{2}, func(p *pool, ins []InputSpec, cs *Case) {
		ins[0].Sigs = []SigSpec{{Idx: 0, Signer: ins[0].Keys[0]}, {Idx: 2, Signer: ins[0].Keys[1]}}
	})
	mk("index-65535", []int{2}, []int{1}, func(p *pool, ins []InputSpec, cs *Case) {
		ins[0].Sigs = []SigSpec{{Idx: 0, Signer: ins[0].Keys[0]}, {Idx: 65535, Signer: ins[0].Keys[1]}}
	})
	mk("same-key-two-inputs", []int{2, 2}, []int{2, 2}, func(p *pool, ins []InputSpec, cs *Case) {
		ins[1].Keys[1] = ins[0].Keys[0]
		first(&ins[0], 2)
		first(&ins[1], 2)
	})
	mk("same-key-two-inputs-one-unsigned", []int{2, 2}, []int{2, 2}, func(p *pool, ins []InputSpec, cs *Case) {
		ins[1].Keys[1] = ins[0].Keys[0]
		first(&ins[0], 2)
		first(&ins[1], 1)
	})
	mk("sig-of-other-input-key", []int{1, 1}, []int{1, 1}, func(p *pool, ins []InputSpec, cs *Case) {
		ins[0].Sigs = []SigSpec{{Idx: 0, Signer: ins[0].Keys[0]}}
		ins[1].Sigs = []SigSpec{{Idx: 0, Signer: ins[0].Keys[0]}}
	})
	mk("one-owner-signs-twice", []int{2}, []int{2}, func(p *pool, ins []InputSpec, cs *Case) {
		ins[0].Sigs = []SigSpec{{Idx: 0, Signer: ins[0].Keys[0]}, {Idx: 1, Signer: ins[0].Keys[0]}}
	})
	mk("noderemove-type-no-maps", []int{1}, []int{0}, func(p *pool, ins []InputSpec, cs *Case) { cs.TxType = 9; cs.NMaps = 0 })
	mk("noderemove-type-empty-map", []int{1}, []int{0}, func(p *pool, ins []InputSpec, cs *Case) { cs.TxType = 9 })
	mk("noderemove-type-threshold1-empty-map", []int{1}, []int{1}, func(p *pool, ins []InputSpec, cs *Case) { cs.TxType = 9 })
	mk("pledge-input-accept-type", []int{1}, []int{1}, func(p *pool, ins []InputSpec, cs *Case) {
		ins[0].Type = 0xa3
		cs.TxType = 7
		cs.NMaps = 0
	})
	mk("pledge-input-script-type", []int{1}, []int{1}, func(p *pool, ins []InputSpec, cs *Case) {
		ins[0].Type = 0xa3
		cs.TxType = 0
	})
	// aggregate windows
	agg := func(kind string, nkeys, ths, signers, actual []int) {
		mk(kind, nkeys, ths, func(p *pool, ins []InputSpec, cs *Case) {
			cs.NMaps = -1
			cs.Agg = &AggSpec{Signers: signers, Actual: actual, Seed: hex.EncodeToString(r.Bytes(32)), By: signedBy(r)}
		})
	}
	agg("agg-2-1-all", []int{2, 2}, []int{2, 1}, []int{0, 1, 2}, []int{0, 1, 2})
	agg("agg-window-left-short", []int{2, 2}, []int{2, 1}, []int{1, 2}, []int{1, 2})
	agg("agg-window-right-short", []int{2, 2}, []int{1, 2}, []int{0, 1, 2}, []int{0, 1, 2})
	agg("agg-window-last-key", []int{2, 2}, []int{1, 2}, []int{1, 2, 3}, []int{1, 2, 3})
	agg("agg-signer-equals-total", []int{2, 2}, []int{1, 1}, []int{0, 2, 4}, []int{0, 2})
	agg("agg-claims-more-than-signed", []int{3}, []int{2}, []int{0, 1}, []int{0})
	agg("agg-claims-other-than-signed", []int{3}, []int{2}, []int{0, 1}, []int{1, 2})
	agg("agg-unsorted", []int{3}, []int{2}, []int{1, 0}, []int{0, 1})
	agg("agg-duplicate", []int{3}, []int{2}, []int{0, 0}, []int{0})
	agg("agg-empty-zero", []int{1}, []int{0}, nil, nil)
	agg("agg-64", []int{64}, []int{64}, seq(64), seq(64))
	agg("agg-63-of-64", []int{64}, []int{64}, seq(63), seq(63))
	// Script.Validate boundaries
	for _, sc := range []struct {
		s   string
		sum int
	}{{"fffe00", 0}, {"fffe00", -1}, {"fffe01", 0}, {"fffe01", 1}, {"fffe40", 63}, {"fffe40", 64}, {"fffe41", 65},
		{"fffe", 1}, {"", 0}, {"fffe0100", 1}, {"fefe01", 1}, {"ffff01", 1}} {
		out = append(out, Case{Op: "script", Kind: "script", Script: sc.s, Sum: sc.sum, TxType: -1})
	}
	for _, m := range []string{"honest", "repo", "s+1", "s+l", "otherR", "otherKey", "otherMsg", "badR", "torsionR", "torsionKey", "mixedR", "mixedKey", "noncanonR"} {
		a, k := newPriv(r), newPriv(r)
		out = append(out, Case{Op: "verify", Kind: "verify", Msg: hex.EncodeToString(r.Bytes(32)), TxType: -1,
			Entries: []SchEntry{{Priv: hex.EncodeToString(a[:]), Nonce: hex.EncodeToString(k[:]), Mode: m}}})
	}
	out = append(out, Case{Op: "batch", Kind: "batch", Msg: hex.EncodeToString(r.Bytes(32)), TxType: -1})
	// linear cancellation: every family, directly and through the whole validation
	for _, f := range cancelFamilies {
		out = append(out, genCancelBatch(r, f))
	}
	for _, k := range cancelInputKinds {
		out = append(out, genCancelInputs(r, k))
	}
	// histories: genuine first, then tampered copies in the same process; and the control order
	out = append(out, genMemoInputs(r, "genuine-first", false, "single", 6))
	out = append(out, genMemoInputs(r, "genuine-first", false, "", 6))
	out = append(out, genMemoInputs(r, "genuine-first", true, "", 6))
	out = append(out, genMemoInputs(r, "tamper-first", false, "single", 6))
	out = append(out, genMemoInputs(r, "tamper-first", true, "", 6))
	out = append(out, genMemoCrypto(r, "genuine-first"))
	out = append(out, genMemoCrypto(r, "tamper-first"))
	// rogue-key forgeries under every coefficient weakening, through Validate and through AggregateVerify
	for _, w := range forgeWeakenings {
		out = append(out, genRogue(r, w, false))
	}
	out = append(out, genRogue(r, "uniform", true), genRogue(r, "plain", true), genRogueHonest(r), genRogueHonest(r))
	// lock histories: validated, inputs locked in the store, then the same payload forged
	out = append(out, genLockHistory(r, false, "all"))
	out = append(out, genLockHistory(r, true, "all"))
	out = append(out, genLockHistory(r, false, "some"))
	out = append(out, genLockHistory(r, false, "other"))
	// preset lock states outside a history
	mk("locked-this-hash-forged", []int{2}, []int{2}, func(p *pool, ins []InputSpec, cs *Case) {
		ins[0].Sigs = []SigSpec{{Idx: 0, Signer: ins[0].Keys[0]}, {Idx: 1, Signer: ins[0].Keys[0]}}
		cs.Locks = []int{1}
	})
	mk("locked-this-hash-honest", []int{2}, []int{2}, func(p *pool, ins []InputSpec, cs *Case) { first(&ins[0], 2); cs.Locks = []int{1} })
	mk("locked-other-hash-honest", []int{2}, []int{2}, func(p *pool, ins []InputSpec, cs *Case) { first(&ins[0], 2); cs.Locks = []int{2} })
	mk("locked-other-hash-fork-honest", []int{2}, []int{2}, func(p *pool, ins []InputSpec, cs *Case) {
		first(&ins[0], 2)
		cs.Locks = []int{2}
		cs.Fork = true
	})
	mk("locked-other-hash-fork-no-sigs", []int{2, 1}, []int{2, 1}, func(p *pool, ins []InputSpec, cs *Case) {
		cs.Locks = []int{2, 1}
		cs.Fork = true
	})
	return out
}

func seq(n int) []int {
	out := make([]int, n)
	for i := range out {
		out[i] = i
	}
	return out
}
