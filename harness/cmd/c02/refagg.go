package main

// Independent transcription of the aggregate (MuSig-style) signature scheme of the
// UNCHANGED crypto/aggregation.go, written from edwards25519 / SHA-512 primitives only.
// The harness judges every aggregate signature with this transcription (and produces
// part of them with it), so a change inside crypto/aggregation.go that keeps
// AggregateSign and AggregateVerify mutually consistent is still seen.
//
//   transcript  = u32be(len(signers)) || for each signer i: u32be(i) || K_i
//   a_i         = SHA-512("mixin-aggregate-coefficient-v1" || transcript || u32be(i) || K_i)  mod l
//   A           = sum a_i * K_i
//   x           = SHA-512(R || A || m)  mod l
//   accepted    <=> signers non-empty, strictly increasing, < len(keys), every K_i and R the
//                   canonical encoding of a prime-order point, S canonical, S*B = R + x*A

import (
	"crypto/sha512"
	"encoding/binary"

	"filippo.io/edwards25519"
	"github.com/MixinNetwork/mixin/crypto"
)

const refCoefficientDomain = "mixin-aggregate-coefficient-v1"

var refInvEight = func() *edwards25519.Scalar {
	var b [32]byte
	b[0] = 8
	e, err := edwards25519.NewScalar().SetCanonicalBytes(b[:])
	if err != nil {
		panic(err)
	}
	return edwards25519.NewScalar().Invert(e)
}()

// canonical encoding of a point of the prime-order subgroup (identity excluded)
func refDecodePoint(b []byte) *edwards25519.Point {
	p, err := new(edwards25519.Point).SetBytes(b)
	if err != nil {
		return nil
	}
	if string(p.Bytes()) != string(b) {
		return nil
	}
	if p.Equal(edwards25519.NewIdentityPoint()) == 1 {
		return nil
	}
	cleared := new(edwards25519.Point).MultByCofactor(p)
	if new(edwards25519.Point).ScalarMult(refInvEight, cleared).Equal(p) != 1 {
		return nil
	}
	return p
}

func refReduce(parts ...[]byte) *edwards25519.Scalar {
	h := sha512.New()
	for _, p := range parts {
		h.Write(p)
	}
	s, err := edwards25519.NewScalar().SetUniformBytes(h.Sum(nil))
	if err != nil {
		panic(err)
	}
	return s
}

func refTranscript(keys []*crypto.Key, signers []int) []byte {
	t := binary.BigEndian.AppendUint32(nil, uint32(len(signers)))
	for _, i := range signers {
		t = binary.BigEndian.AppendUint32(t, uint32(i))
		t = append(t, keys[i][:]...)
	}
	return t
}

func refSignersOK(keys []*crypto.Key, signers []int) bool {
	if len(signers) == 0 {
		return false
	}
	prev := -1
	for _, i := range signers {
		if i <= prev || i >= len(keys) || keys[i] == nil {
			return false
		}
		prev = i
	}
	return true
}

func refCoefficient(transcript []byte, i int, k *crypto.Key) *edwards25519.Scalar {
	return refReduce([]byte(refCoefficientDomain), transcript, binary.BigEndian.AppendUint32(nil, uint32(i)), k[:])
}

// weighted aggregate key and the coefficients; nil when a key is not a valid point
func refAggregateKey(keys []*crypto.Key, signers []int) (*edwards25519.Point, []*edwards25519.Scalar) {
	tr := refTranscript(keys, signers)
	A := edwards25519.NewIdentityPoint()
	var cs []*edwards25519.Scalar
	for _, i := range signers {
		p := refDecodePoint(keys[i][:])
		if p == nil {
			return nil, nil
		}
		c := refCoefficient(tr, i, keys[i])
		A = new(edwards25519.Point).Add(A, new(edwards25519.Point).ScalarMult(c, p))
		cs = append(cs, c)
	}
	return A, cs
}

// the independent verdict
func refAggregateVerify(sig *crypto.Signature, keys []*crypto.Key, signers []int, m crypto.Hash) bool {
	if !refSignersOK(keys, signers) {
		return false
	}
	A, _ := refAggregateKey(keys, signers)
	if A == nil {
		return false
	}
	// the aggregate key itself goes through Key.Verify in the repository: canonical prime-order point
	if refDecodePoint(A.Bytes()) == nil {
		return false
	}
	R := refDecodePoint(sig[:32])
	if R == nil {
		return false
	}
	S, err := edwards25519.NewScalar().SetCanonicalBytes(sig[32:])
	if err != nil {
		return false
	}
	x := refReduce(sig[:32], A.Bytes(), m[:])
	lhs := new(edwards25519.Point).ScalarBaseMult(S)
	rhs := new(edwards25519.Point).Add(R, new(edwards25519.Point).ScalarMult(x, A))
	return lhs.Equal(rhs) == 1
}

// an aggregate signature by the private keys privs[k] of the signers signers[k], nonces derived
// from the seed; nil when the signer list or a key is malformed
func refAggregateSign(privs []*crypto.Key, keys []*crypto.Key, signers []int, seed []byte, m crypto.Hash) *crypto.Signature {
	if !refSignersOK(keys, signers) || len(privs) != len(signers) {
		return nil
	}
	A, coeffs := refAggregateKey(keys, signers)
	if A == nil {
		return nil
	}
	R := edwards25519.NewIdentityPoint()
	var zs []*edwards25519.Scalar
	for k := range signers {
		z := refReduce([]byte("c02-reference-nonce"), seed, binary.BigEndian.AppendUint32(nil, uint32(signers[k])), privs[k][:], m[:])
		zs = append(zs, z)
		R = new(edwards25519.Point).Add(R, new(edwards25519.Point).ScalarBaseMult(z))
	}
	x := refReduce(R.Bytes(), A.Bytes(), m[:])
	S := edwards25519.NewScalar()
	for k := range signers {
		y, err := edwards25519.NewScalar().SetCanonicalBytes(privs[k][:])
		if err != nil {
			return nil
		}
		w := edwards25519.NewScalar().Multiply(coeffs[k], y)
		S = edwards25519.NewScalar().Add(S, edwards25519.NewScalar().MultiplyAdd(x, w, zs[k]))
	}
	var sig crypto.Signature
	copy(sig[:32], R.Bytes())
	copy(sig[32:], S.Bytes())
	return &sig
}

// ---- rogue-key forgeries -------------------------------------------------------------------
// The key list holds V_1..V_k and the rogue key X - sum V_j; the attacker knows x only.  If an
// implementation weighted every signer of the set with ONE coefficient c, the aggregate key would
// collapse to c*X and the scalar c*x alone would sign for all keys.  Each weakening is a guess of c.

func refForgeCoefficient(weakening string, keys []*crypto.Key, signers []int) *edwards25519.Scalar {
	tr := refTranscript(keys, signers)
	last := signers[len(signers)-1]
	switch weakening {
	case "uniform": // H(domain || transcript)
		return refReduce([]byte(refCoefficientDomain), tr)
	case "plain": // coefficient 1: the plain sum of the keys
		var one [32]byte
		one[0] = 1
		s, _ := edwards25519.NewScalar().SetCanonicalBytes(one[:])
		return s
	case "noindex": // H(domain || transcript || key) taken for the whole set
		return refReduce([]byte(refCoefficientDomain), tr, keys[last][:])
	case "nokey": // H(domain || transcript || index) taken for the whole set
		return refReduce([]byte(refCoefficientDomain), tr, binary.BigEndian.AppendUint32(nil, uint32(last)))
	case "notranscript": // H(domain)
		return refReduce([]byte(refCoefficientDomain))
	default: // "full": the real coefficient of the rogue position, taken for the whole set
		return refCoefficient(tr, last, keys[last])
	}
}

// Schnorr signature of the scalar c*x over m under the public key (c*x)*B
func refForge(weakening string, x crypto.Key, keys []*crypto.Key, signers []int, seed []byte, m crypto.Hash) crypto.Signature {
	c := refForgeCoefficient(weakening, keys, signers)
	xs, err := edwards25519.NewScalar().SetCanonicalBytes(x[:])
	if err != nil {
		panic(err)
	}
	p := edwards25519.NewScalar().Multiply(c, xs)
	P := new(edwards25519.Point).ScalarBaseMult(p)
	z := refReduce([]byte("c02-forge-nonce"), seed, m[:])
	R := new(edwards25519.Point).ScalarBaseMult(z)
	k := refReduce(R.Bytes(), P.Bytes(), m[:])
	s := edwards25519.NewScalar().MultiplyAdd(k, p, z)
	var sig crypto.Signature
	copy(sig[:32], R.Bytes())
	copy(sig[32:], s.Bytes())
	return sig
}

// X - sum V_j as a key
func rogueKey(x crypto.Key, victims []crypto.Key) crypto.Key {
	xp := x.Public()
	P, err := new(edwards25519.Point).SetBytes(xp[:])
	if err != nil {
		panic(err)
	}
	for _, v := range victims {
		vp, err := new(edwards25519.Point).SetBytes(v[:])
		if err != nil {
			panic(err)
		}
		P = new(edwards25519.Point).Subtract(P, vp)
	}
	var out crypto.Key
	copy(out[:], P.Bytes())
	return out
}
