// C33 harness: runs common.Integer / RationalNumber on generated inputs, emits
// each observation as a Coq case for the model, and checks the implementation
// directly against exact math/big rational arithmetic (the oracle).
package main

import (
	"fmt"
	"math/big"
	"strings"

	"github.com/MixinNetwork/mixin/common"
	"verifharness/vh"
)

type Case struct {
	Op string   `json:"op"`
	S  string   `json:"s,omitempty"`
	A  []string `json:"a,omitempty"` // decimal integers
}

var ten8 = big.NewInt(100000000)
var two64 = new(big.Int).Lsh(big.NewInt(1), 64)

func bi(s string) *big.Int {
	v, ok := new(big.Int).SetString(s, 10)
	if !ok {
		panic("bad int " + s)
	}
	return v
}

func resZ(pan bool, v *big.Int) string {
	if pan {
		return vh.Pan("Z")
	}
	return vh.Ok(vh.Z(v))
}

// reference for parse: exact rational value of the accepted grammar, or nil if
// the text must be refused.  Written against the property ("decimal text"),
// not against the library: [+-]?digits[.digits]([eE][+-]?digits)? with at least
// one digit in the mantissa; '.' may lead or trail.
// refSkip: grammatical text whose exponent is beyond what the reference computes exactly
var refSkip = new(big.Rat)

func refParse(s string) *big.Rat {
	mant, exp := s, ""
	hasExp := false
	if i := strings.IndexAny(s, "eE"); i >= 0 {
		mant, exp, hasExp = s[:i], s[i+1:], true
	}
	e := int64(0)
	if hasExp {
		ev, ok := new(big.Int).SetString(exp, 10)
		if !ok || !ev.IsInt64() || ev.Int64() > 1<<31-1 || ev.Int64() < -(1<<31) {
			return nil
		}
		e = ev.Int64()
	}
	if strings.Count(mant, ".") > 1 {
		return nil
	}
	frac := 0
	if i := strings.Index(mant, "."); i >= 0 {
		frac = len(mant) - i - 1
		mant = mant[:i] + mant[i+1:]
	}
	if mant == "" {
		return nil
	}
	body := mant
	if body[0] == '+' || body[0] == '-' {
		body = body[1:]
	}
	if body == "" {
		return nil
	}
	for _, c := range body {
		if c < '0' || c > '9' {
			return nil
		}
	}
	v := bi(strings.TrimPrefix(mant, "+"))
	r := new(big.Rat).SetInt(v)
	e -= int64(frac)
	if e < -(1<<31) || e > 1<<31-1 {
		return nil
	}
	if e < -4096 && len(body) < 4000 {
		e = -5000 // |v| < 10^4000: same sign, and floor(v*10^8*10^e) is 0 for every such e when v >= 0
	}
	if e > 1<<17 || e < -5000 {
		return refSkip // too large for an exact reference; the model comparison still covers it
	}
	p := new(big.Int).Exp(big.NewInt(10), big.NewInt(abs(e)), nil)
	if e >= 0 {
		r.Mul(r, new(big.Rat).SetInt(p))
	} else {
		r.Quo(r, new(big.Rat).SetInt(p))
	}
	return r
}

func abs(x int64) int64 {
	if x < 0 {
		return -x
	}
	return x
}

func floorRat(r *big.Rat) *big.Int {
	q := new(big.Int)
	m := new(big.Int)
	q.DivMod(r.Num(), r.Denom(), m) // Euclidean: floor for positive denominator
	return q
}

func run(c *vh.Ctx, cs Case) {
	key := fmt.Sprintf("%s|%s|%s", cs.Op, cs.S, strings.Join(cs.A, ","))
	switch cs.Op {
	case "parse":
		var got common.Integer
		pan, _ := vh.Catch(func() { got = common.NewIntegerFromString(cs.S) })
		var gv *big.Int
		if !pan {
			gv = common.VerifIntegerBig(got)
		}
		term := vh.App("CParse", vh.Bytes([]byte(cs.S)), resZ(pan, gv))
		if i := strings.IndexAny(cs.S, "eE"); i >= 0 && len(strings.TrimLeft(cs.S[i+1:], "+-0")) > 4 {
			term = "" // 10^e with a five-digit exponent takes minutes under vm_compute: implementation and oracle only
		}
		c.Case("parse", key, !pan, cs, term)
		ref := refParse(cs.S)
		if ref == refSkip {
			c.Note("parse oracle skipped (exponent beyond exact reference): " + cs.S)
		} else if ref == nil || ref.Sign() < 0 {
			if !pan {
				c.Fail("parse-accepts-invalid", "text outside the decimal grammar (or negative) was accepted: "+cs.S, cs)
			}
		} else {
			want := floorRat(new(big.Rat).Mul(ref, new(big.Rat).SetInt(ten8)))
			if pan {
				c.Fail("parse-rejects-valid", "valid non-negative decimal text refused: "+cs.S, cs)
			} else if want.Cmp(gv) != 0 {
				c.Fail("parse-wrong-value", fmt.Sprintf("parse %q = %s units, exact floor is %s", cs.S, gv, want), cs)
			} else {
				// prints back to the normalised text, which parses to the same value
				txt := got.String()
				var again common.Integer
				p2, _ := vh.Catch(func() { again = common.NewIntegerFromString(txt) })
				if p2 || again.Cmp(got) != 0 {
					c.Fail("print-parse", "printed text "+txt+" does not parse back", cs)
				}
			}
		}
	case "print":
		x := bi(cs.A[0])
		txt := common.VerifIntegerFromBig(x).String()
		c.Case("print", key, true, cs, vh.App("CPrint", vh.Z(x), vh.Bytes([]byte(txt))))
		// normalised: digits '.' exactly 8 digits, no superfluous leading zero
		i := strings.Index(txt, ".")
		ok := i >= 1 && len(txt)-i-1 == 8 && (i == 1 || txt[0] != '0')
		if ok {
			back, good := new(big.Int).SetString(txt[:i]+txt[i+1:], 10)
			ok = good && back.Cmp(x) == 0
		}
		if !ok {
			c.Fail("print-not-normalised", "String() of "+cs.A[0]+" units is "+txt, cs)
		}
	case "add", "sub", "count", "cmp":
		x, y := bi(cs.A[0]), bi(cs.A[1])
		ix, iy := common.VerifIntegerFromBig(x), common.VerifIntegerFromBig(y)
		var gv *big.Int
		var pan bool
		switch cs.Op {
		case "add":
			pan, _ = vh.Catch(func() { gv = common.VerifIntegerBig(ix.Add(iy)) })
			c.Case("add", key, !pan, cs, vh.App("CAdd", vh.Z(x), vh.Z(y), resZ(pan, gv)))
			wantPanic := x.Sign() < 0 || y.Sign() <= 0
			oracle(c, cs, pan, gv, wantPanic, new(big.Int).Add(x, y))
		case "sub":
			pan, _ = vh.Catch(func() { gv = common.VerifIntegerBig(ix.Sub(iy)) })
			c.Case("sub", key, !pan, cs, vh.App("CSub", vh.Z(x), vh.Z(y), resZ(pan, gv)))
			wantPanic := x.Sign() < 0 || y.Sign() <= 0 || x.Cmp(y) < 0
			oracle(c, cs, pan, gv, wantPanic, new(big.Int).Sub(x, y))
		case "count":
			pan, _ = vh.Catch(func() { gv = new(big.Int).SetUint64(ix.Count(iy)) })
			c.Case("count", key, !pan, cs, vh.App("CCount", vh.Z(x), vh.Z(y), resZ(pan, gv)))
			wantPanic := x.Sign() <= 0 || y.Sign() <= 0 || x.Cmp(y) < 0
			var want *big.Int
			if !wantPanic {
				want = floorRat(new(big.Rat).SetFrac(x, y))
				if want.Cmp(two64) >= 0 {
					wantPanic = true // does not fit the uint64 result
				}
			}
			oracle(c, cs, pan, gv, wantPanic, want)
		case "cmp":
			g := ix.Cmp(iy)
			c.Case("cmp", key, true, cs, vh.App("CCmp", vh.Z(x), vh.Z(y), vh.ZI(int64(g))))
			if g != x.Cmp(y) {
				c.Fail("cmp-wrong", "Cmp disagrees with integer order", cs)
			}
		}
	case "mul", "div":
		x, y := bi(cs.A[0]), bi(cs.A[1])
		ix := common.VerifIntegerFromBig(x)
		yi := int(y.Int64())
		var gv *big.Int
		var pan bool
		if cs.Op == "mul" {
			pan, _ = vh.Catch(func() { gv = common.VerifIntegerBig(ix.Mul(yi)) })
			c.Case("mul", key, !pan, cs, vh.App("CMul", vh.Z(x), vh.Z(y), resZ(pan, gv)))
			oracle(c, cs, pan, gv, x.Sign() < 0 || yi <= 0, new(big.Int).Mul(x, y))
		} else {
			pan, _ = vh.Catch(func() { gv = common.VerifIntegerBig(ix.Div(yi)) })
			c.Case("div", key, !pan, cs, vh.App("CDiv", vh.Z(x), vh.Z(y), resZ(pan, gv)))
			var want *big.Int
			wp := x.Sign() < 0 || yi <= 0
			if !wp {
				want = floorRat(new(big.Rat).SetFrac(x, y))
			}
			oracle(c, cs, pan, gv, wp, want)
		}
	case "new":
		x := bi(cs.A[0])
		g := common.VerifIntegerBig(common.NewInteger(x.Uint64()))
		c.Case("new", key, true, cs, vh.App("CNew", vh.Z(x), vh.Z(g)))
		if g.Cmp(new(big.Int).Mul(x, ten8)) != 0 {
			c.Fail("new-wrong", "NewInteger is not x*10^8", cs)
		}
	case "ration":
		x, y := bi(cs.A[0]), bi(cs.A[1])
		var rx, ry *big.Int
		pan, _ := vh.Catch(func() {
			r := common.VerifIntegerFromBig(x).Ration(common.VerifIntegerFromBig(y))
			rx, ry = common.VerifRationParts(r)
		})
		obs := vh.Pan("(Z*Z)")
		if !pan {
			obs = vh.Ok("(" + vh.Z(rx) + ", " + vh.Z(ry) + ")")
		}
		c.Case("ration", key, !pan, cs, vh.App("CRation", vh.Z(x), vh.Z(y), obs))
		wp := x.Sign() < 0 || y.Sign() <= 0
		if wp != pan {
			c.Fail("ration-guard", "Ration panics exactly on negative numerator / non-positive denominator", cs)
		} else if !pan && new(big.Rat).SetFrac(rx, ry).Cmp(new(big.Rat).SetFrac(x, y)) != 0 {
			c.Fail("ration-value", "Ration is not x/y", cs)
		}
	case "product":
		rx, ry, x := bi(cs.A[0]), bi(cs.A[1]), bi(cs.A[2])
		r := common.VerifRationFromParts(rx, ry)
		var gv *big.Int
		pan, _ := vh.Catch(func() { gv = common.VerifIntegerBig(r.Product(common.VerifIntegerFromBig(x))) })
		c.Case("product", key, !pan, cs, vh.App("CProduct", vh.Z(rx), vh.Z(ry), vh.Z(x), resZ(pan, gv)))
		wp := x.Sign() < 0 || ry.Sign() == 0
		var want *big.Int
		if !wp {
			want = floorRat(new(big.Rat).Mul(new(big.Rat).SetFrac(rx, ry), new(big.Rat).SetInt(x)))
		}
		oracle(c, cs, pan, gv, wp, want)
	case "rcmp":
		ax, ay, bx, by := bi(cs.A[0]), bi(cs.A[1]), bi(cs.A[2]), bi(cs.A[3])
		g := common.VerifRationFromParts(ax, ay).Cmp(common.VerifRationFromParts(bx, by))
		c.Case("rcmp", key, true, cs, vh.App("CRCmp", vh.Z(ax), vh.Z(ay), vh.Z(bx), vh.Z(by), vh.ZI(int64(g))))
		if ay.Sign() > 0 && by.Sign() > 0 && g != new(big.Rat).SetFrac(ax, ay).Cmp(new(big.Rat).SetFrac(bx, by)) {
			c.Fail("rcmp-wrong", "RationalNumber.Cmp disagrees with exact rational order", cs)
		}
	default:
		panic("unknown op " + cs.Op)
	}
}

func oracle(c *vh.Ctx, cs Case, pan bool, got *big.Int, wantPanic bool, want *big.Int) {
	if wantPanic != pan {
		c.Fail(cs.Op+"-guard", fmt.Sprintf("%s%v: panicked=%v, documented rejection=%v", cs.Op, cs.A, pan, wantPanic), cs)
		return
	}
	if !pan && got.Cmp(want) != 0 {
		c.Fail(cs.Op+"-value", fmt.Sprintf("%s%v = %s, exact floor is %s", cs.Op, cs.A, got, want), cs)
	}
}

// ---- generators -----------------------------------------------------------------

func amount(r *vh.Rand) *big.Int {
	switch r.Intn(10) {
	case 0:
		return big.NewInt(int64(r.Intn(3))) // 0,1,2
	case 1:
		return r.Big(r.Range(1, 27))
	case 2:
		return r.Big(520)
	case 3:
		return new(big.Int).Lsh(big.NewInt(1), uint(r.Range(60, 520)))
	case 4:
		v := new(big.Int).Lsh(big.NewInt(1), uint(r.Range(60, 520)))
		return v.Sub(v, big.NewInt(1))
	case 5:
		return new(big.Int).Mul(big.NewInt(int64(r.Intn(1000))), ten8)
	default:
		return r.Big(r.Range(1, 300))
	}
}

// wordPair returns two amounts below a machine-word boundary 2^k whose sum
// (or product with a small multiplier) crosses it.
func wordPair(r *vh.Rand) (*big.Int, *big.Int) {
	k := []uint{31, 32, 62, 63, 64, 127, 128}[r.Intn(7)]
	w := new(big.Int).Lsh(big.NewInt(1), k)
	x := new(big.Int).Sub(w, r.Big(r.Range(1, int(k)-1)))
	x.Sub(x, big.NewInt(1))
	if x.Sign() <= 0 {
		x = new(big.Int).Rsh(w, 1)
	}
	y := new(big.Int).Sub(w, x)
	y.Add(y, r.Big(r.Range(0, int(k)-2)))
	if y.Cmp(w) >= 0 {
		y.Sub(w, big.NewInt(1))
	}
	if y.Sign() <= 0 {
		y = big.NewInt(1)
	}
	return x, y
}

func signedAmount(r *vh.Rand) *big.Int {
	v := amount(r)
	if r.Chance(1, 8) {
		v.Neg(v)
	}
	return v
}

func digitsStr(r *vh.Rand, n int) string {
	b := make([]byte, n)
	for i := range b {
		b[i] = byte('0' + r.Intn(10))
	}
	return string(b)
}

func decimalText(r *vh.Rand) string {
	var sb strings.Builder
	switch r.Intn(12) {
	case 0:
		sb.WriteString("+")
	case 1:
		sb.WriteString("-")
	}
	il := r.Intn(5)
	if r.Chance(1, 6) {
		il = r.Range(15, 40) // crosses the 18-character ParseInt shortcut
	}
	if r.Chance(1, 8) {
		sb.WriteString(strings.Repeat("0", r.Range(1, 4)))
	}
	sb.WriteString(digitsStr(r, il))
	if r.Chance(3, 4) {
		sb.WriteString(".")
		fl := r.Intn(12)
		if r.Chance(1, 10) {
			fl = r.Range(12, 30)
		}
		sb.WriteString(digitsStr(r, fl))
	}
	if r.Chance(1, 6) {
		sb.WriteString([]string{"e", "E"}[r.Intn(2)])
		sb.WriteString([]string{"", "+", "-"}[r.Intn(3)])
		sb.WriteString(fmt.Sprint(r.Intn(40)))
	}
	return sb.String()
}

func malformedText(r *vh.Rand) string {
	const alpha = "0123456789..+-eE_ x,/"
	n := r.Intn(10)
	b := make([]byte, n)
	for i := range b {
		b[i] = alpha[r.Intn(len(alpha))]
	}
	return string(b)
}

func gen(c *vh.Ctx) Case {
	r := c.Rng
	s := func(v *big.Int) string { return v.String() }
	switch r.Intn(16) {
	case 0, 1, 2:
		return Case{Op: "parse", S: decimalText(r)}
	case 3:
		return Case{Op: "parse", S: malformedText(r)}
	case 4:
		// text printed by the implementation itself
		return Case{Op: "parse", S: common.VerifIntegerFromBig(amount(r)).String()}
	case 5:
		return Case{Op: "print", A: []string{s(amount(r))}}
	case 6:
		if r.Chance(1, 3) {
			x, y := wordPair(r)
			return Case{Op: "add", A: []string{s(x), s(y)}}
		}
		return Case{Op: "add", A: []string{s(signedAmount(r)), s(signedAmount(r))}}
	case 7:
		x := signedAmount(r)
		y := signedAmount(r)
		if r.Bool() && x.Cmp(y) < 0 {
			x, y = y, x
		}
		if r.Chance(1, 10) {
			y = new(big.Int).Set(x)
		}
		return Case{Op: "sub", A: []string{s(x), s(y)}}
	case 8:
		if r.Chance(1, 3) { // product crosses a word boundary although the amount is below it
			k := []uint{31, 32, 62, 63, 64}[r.Intn(5)]
			m := int64(r.Range(2, 1000000))
			x := new(big.Int).Div(new(big.Int).Lsh(big.NewInt(1), k), big.NewInt(m))
			x.Add(x, big.NewInt(int64(r.Range(-2, 2))))
			if x.Sign() < 0 {
				x.SetInt64(1)
			}
			return Case{Op: "mul", A: []string{s(x), fmt.Sprint(m)}}
		}
		return Case{Op: "mul", A: []string{s(signedAmount(r)), fmt.Sprint(r.Range(-2, 1000000))}}
	case 9:
		return Case{Op: "div", A: []string{s(signedAmount(r)), fmt.Sprint(r.Range(-2, 1000000))}}
	case 10:
		x, y := signedAmount(r), signedAmount(r)
		if r.Bool() && x.CmpAbs(y) < 0 {
			x, y = y, x
		}
		if r.Chance(1, 6) { // quotient near 2^64
			y = r.Big(r.Range(1, 100))
			y.Add(y, big.NewInt(1))
			x = new(big.Int).Mul(y, new(big.Int).Sub(two64, big.NewInt(int64(r.Intn(3))-1)))
			x.Add(x, r.Big(y.BitLen()-1))
		}
		return Case{Op: "count", A: []string{s(x), s(y)}}
	case 11:
		x, y := signedAmount(r), signedAmount(r)
		if r.Chance(1, 5) {
			y = new(big.Int).Set(x)
		}
		return Case{Op: "cmp", A: []string{s(x), s(y)}}
	case 12:
		return Case{Op: "new", A: []string{new(big.Int).SetUint64(r.U64() >> uint(r.Intn(64))).String()}}
	case 13:
		return Case{Op: "ration", A: []string{s(signedAmount(r)), s(signedAmount(r))}}
	case 14:
		ry := amount(r)
		if r.Chance(9, 10) {
			ry.Add(ry, big.NewInt(1))
		}
		return Case{Op: "product", A: []string{s(amount(r)), s(ry), s(signedAmount(r))}}
	default:
		a, b := amount(r), amount(r)
		cc, d := amount(r), amount(r)
		if r.Chance(1, 4) { // equal ratios in different terms
			k := big.NewInt(int64(r.Range(1, 9)))
			cc, d = new(big.Int).Mul(a, k), new(big.Int).Mul(b, k)
		}
		return Case{Op: "rcmp", A: []string{s(a), s(b), s(cc), s(d)}}
	}
}

func corpus() []Case {
	return []Case{
		{Op: "parse", S: "0"}, {Op: "parse", S: "-0"}, {Op: "parse", S: "."}, {Op: "parse", S: ""},
		{Op: "parse", S: ".5"}, {Op: "parse", S: "5."}, {Op: "parse", S: "-.5"}, {Op: "parse", S: ".+5"},
		{Op: "parse", S: "1.-5"}, {Op: "parse", S: "0.000000019"}, {Op: "parse", S: "0.999999999"},
		{Op: "parse", S: "1e-9"}, {Op: "parse", S: "1e8"}, {Op: "parse", S: "1E+2"}, {Op: "parse", S: "1e"},
		{Op: "parse", S: "1_0"}, {Op: "parse", S: "1.2.3"}, {Op: "parse", S: "123456789012345678"},
		{Op: "parse", S: "1234567890123456789"}, {Op: "parse", S: "+1"}, {Op: "parse", S: "-1"},
		{Op: "parse", S: "0.00000001"}, {Op: "parse", S: "00.1"}, {Op: "parse", S: "1e2e3"},
		{Op: "parse", S: "1.E-9215"}, {Op: "parse", S: "-1E-9215"}, {Op: "parse", S: "7E-4097"}, {Op: "parse", S: "1E4097"},
		{Op: "parse", S: "0E-9999"}, {Op: "parse", S: "1e-2147483649"}, {Op: "parse", S: "1e2147483648"},
		{Op: "add", A: []string{"0", "0"}}, {Op: "add", A: []string{"0", "1"}}, {Op: "add", A: []string{"1", "0"}},
		{Op: "sub", A: []string{"5", "5"}}, {Op: "sub", A: []string{"5", "6"}}, {Op: "sub", A: []string{"5", "0"}},
		{Op: "mul", A: []string{"0", "1"}}, {Op: "mul", A: []string{"7", "0"}},
		{Op: "mul", A: []string{"4611686018427387904", "2"}}, {Op: "mul", A: []string{"9223372036854775807", "2"}},
		{Op: "mul", A: []string{"3000000000012345678", "1000000"}}, {Op: "mul", A: []string{"2147483648", "2"}},
		{Op: "add", A: []string{"9223372036854775808", "9223372036854775808"}}, {Op: "add", A: []string{"18446744073709551615", "1"}},
		{Op: "add", A: []string{"9223372036854775807", "1"}}, {Op: "add", A: []string{"4294967295", "1"}},
		{Op: "sub", A: []string{"18446744073709551616", "1"}}, {Op: "sub", A: []string{"9223372036854775808", "1"}},
		{Op: "div", A: []string{"18446744073709551616", "2"}}, {Op: "div", A: []string{"36893488147419103232", "3"}},
		{Op: "div", A: []string{"0", "1"}}, {Op: "div", A: []string{"7", "0"}}, {Op: "div", A: []string{"7", "2"}},
		{Op: "count", A: []string{"18446744073709551616", "1"}}, {Op: "count", A: []string{"18446744073709551615", "1"}},
		{Op: "count", A: []string{"5", "5"}}, {Op: "count", A: []string{"4", "5"}}, {Op: "count", A: []string{"0", "0"}},
		{Op: "print", A: []string{"0"}}, {Op: "print", A: []string{"99999999"}}, {Op: "print", A: []string{"100000000"}},
		{Op: "product", A: []string{"1", "0", "5"}}, {Op: "product", A: []string{"1", "3", "0"}},
		{Op: "ration", A: []string{"0", "1"}}, {Op: "ration", A: []string{"1", "0"}},
		{Op: "rcmp", A: []string{"1", "2", "2", "4"}}, {Op: "rcmp", A: []string{"1", "3", "1", "2"}},
	}
}

func main() {
	c := vh.Start("C33")
	c.Rep.Rule = "corpus of boundary texts/operands, then random cases drawn by one SplitMix64 stream: decimal texts " +
		"([+-]digits[.digits][e±n], 18-char shortcut crossed), malformed texts, implementation-printed texts, amounts 0..2^520 " +
		"(1/8 negative), multipliers/divisors -2..10^6, Count quotients around 2^64, ratios. Non-trivial = the operation " +
		"returned a value (not the documented rejection); distinct by (op, operands)."
	if c.Replay != "" {
		var cs Case
		c.ReplayCase(&cs)
		run(c, cs)
		c.Finish()
		return
	}
	for _, cs := range corpus() {
		run(c, cs)
	}
	n := c.Scale(3000, 60000)
	for i := 0; i < n; i++ {
		run(c, gen(c))
	}
	c.Finish()
}
