// Shared between cmd/c10 and cmd/c29 (kept identical in both directories):
// a deterministic pool of node identities, the JSON form of a membership
// history and its translation to the kernel hook and to Coq terms.
package main

import (
	"bytes"
	"fmt"
	"math/big"
	"sort"
	"strings"

	"github.com/MixinNetwork/mixin/common"
	"github.com/MixinNetwork/mixin/config"
	"github.com/MixinNetwork/mixin/crypto"
	"github.com/MixinNetwork/mixin/kernel"
)

const (
	Hour   = uint64(3600) * 1000000000
	Day    = 24 * Hour
	Second = uint64(1000000000)
	// mainnet-like epoch 2019-02-28T00:00:00Z
	EpochMain = uint64(1551312000) * 1000000000
)

const poolSize = 120

type ident struct {
	priv crypto.Key
	addr common.Address
}

type network struct {
	id    crypto.Hash
	ids   []crypto.Hash        // pool index -> node id
	rank  map[crypto.Hash]int  // node id -> 1-based rank in numeric id order
	byId  map[crypto.Hash]int  // node id -> pool index
}

var pool []ident
var nets = map[bool]*network{}

func initPool() {
	for i := 0; i < poolSize; i++ {
		seed := crypto.Blake3Hash([]byte(fmt.Sprintf("verif membership signer %d", i)))
		priv := crypto.NewKeyFromSeed(append(seed[:], seed[:]...))
		var a common.Address
		a.PublicSpendKey = priv.Public()
		a.PrivateViewKey = a.PublicSpendKey.DeterministicHashDerive()
		a.PublicViewKey = a.PrivateViewKey.Public()
		pool = append(pool, ident{priv: priv, addr: a})
	}
	for _, mainnet := range []bool{false, true} {
		var nid crypto.Hash
		if mainnet {
			h, err := crypto.HashFromString(config.KernelNetworkId)
			if err != nil {
				panic(err)
			}
			nid = h
		} else {
			nid = crypto.Blake3Hash([]byte("verif membership test network"))
		}
		nw := &network{id: nid, rank: map[crypto.Hash]int{}, byId: map[crypto.Hash]int{}}
		for i := range pool {
			id := pool[i].addr.Hash().ForNetwork(nid)
			nw.ids = append(nw.ids, id)
			nw.byId[id] = i
		}
		sorted := append([]crypto.Hash{}, nw.ids...)
		sort.Slice(sorted, func(i, j int) bool { return bytes.Compare(sorted[i][:], sorted[j][:]) < 0 })
		for i, id := range sorted {
			nw.rank[id] = i + 1
		}
		nets[mainnet] = nw
	}
}

// Rec is one membership record: pool index, timestamp, state letter
// (P pledging, A accepted, R removed, C cancelled), genesis flag.
type Rec struct {
	K  int    `json:"k"`
	Ts uint64 `json:"ts"`
	St string `json:"st"`
	G  bool   `json:"g,omitempty"`
}

var stateName = map[string]string{
	"P": common.NodeStatePledging, "A": common.NodeStateAccepted,
	"R": common.NodeStateRemoved, "C": common.NodeStateCancelled,
}
var stateCoq = map[string]string{"P": "0", "A": "1", "R": "2", "C": "3"}

// recTx is the transaction attached to record i of a history: a real
// transaction so that its payload hash can be handed to checkRemovePossibility.
func recTx(i int) *common.VersionedTransaction {
	tx := common.NewTransactionV5(common.XINAssetId)
	tx.Extra = []byte(fmt.Sprintf("verif membership record %d", i))
	return tx.AsVersioned()
}

var txHashCache = map[int]crypto.Hash{}

func recTxHash(i int) crypto.Hash {
	if h, ok := txHashCache[i]; ok {
		return h
	}
	h := recTx(i).PayloadHash()
	txHashCache[i] = h
	return h
}

func buildNode(mainnet bool, epoch uint64, recs []Rec) *kernel.Node {
	nw := nets[mainnet]
	hs := make([]kernel.VerifC10NodeRec, len(recs))
	for i, r := range recs {
		hs[i] = kernel.VerifC10NodeRec{
			Signer:      pool[r.K].addr,
			Payee:       pool[r.K].addr,
			Transaction: recTxHash(i),
			Timestamp:   r.Ts,
			State:       stateName[r.St],
			Genesis:     r.G,
		}
	}
	return kernel.VerifC10NewMembershipNode(nw.id, epoch, hs)
}

// lst prints a Coq list; the element type is known from the constructor.
func lst(el []string) string {
	if len(el) == 0 {
		return "[]"
	}
	return "[" + strings.Join(el, "; ") + "]"
}

// big literals are printed in hexadecimal: Coq parses them about 8x faster
func zts(ts uint64) string {
	if ts < 1000000 {
		return fmt.Sprint(ts)
	}
	return fmt.Sprintf("0x%x", ts)
}

func coqRec(nw *network, i int, r Rec) string {
	return fmt.Sprintf("(R %d %s %s %d)", nw.rank[nw.ids[r.K]], zts(r.Ts), stateCoq[r.St], i+1)
}

func coqRecs(nw *network, recs []Rec) string {
	el := make([]string, len(recs))
	for i, r := range recs {
		el[i] = coqRec(nw, i, r)
	}
	return lst(el)
}

func coqGenesis(nw *network, recs []Rec) string {
	seen := map[int]bool{}
	var el []string
	for _, r := range recs {
		if r.G && !seen[r.K] {
			seen[r.K] = true
			el = append(el, fmt.Sprint(nw.rank[nw.ids[r.K]]))
		}
	}
	return lst(el)
}

// coqCNode prints a kernel CNode as the model record (its transaction is
// looked up among the history records).
func coqCNode(nw *network, recs []Rec, cn *kernel.CNode) string {
	st := ""
	for k, v := range stateName {
		if v == cn.State {
			st = k
		}
	}
	txi := 0
	for i := range recs {
		if recTxHash(i) == cn.Transaction {
			txi = i + 1
		}
	}
	if st == "" {
		// identity of a chain that is not in the membership (never generated)
		panic("cnode without state")
	}
	return fmt.Sprintf("(R %d %s %s %d)", nw.rank[cn.IdForNetwork], zts(cn.Timestamp), stateCoq[st], txi)
}

func coqId(nw *network, id crypto.Hash) string {
	if (id == crypto.Hash{}) {
		return "0"
	}
	r, ok := nw.rank[id]
	if !ok {
		// an id outside the pool: print its full value
		return new(big.Int).SetBytes(id[:]).String()
	}
	return fmt.Sprint(r)
}

// coqIdCode prints an id vector as one hexadecimal number whose base-128
// digits are the ranks (first id least significant); Run/C10.v [code].
func coqIdCode(nw *network, ids []crypto.Hash) string {
	v := new(big.Int)
	for i := len(ids) - 1; i >= 0; i-- {
		r, ok := nw.rank[ids[i]]
		if !ok || r < 1 || r > 127 {
			panic("id outside the identity pool")
		}
		v.Lsh(v, 7)
		v.Add(v, big.NewInt(int64(r)))
	}
	return "0x" + v.Text(16)
}

func coqIds(nw *network, ids []crypto.Hash) string {
	el := make([]string, len(ids))
	for i, id := range ids {
		el[i] = coqId(nw, id)
	}
	return lst(el)
}

// latestStates is the harness' own bookkeeping of the history: the last state
// of every identity among the records strictly before ts.
func latestStates(recs []Rec, ts uint64) map[int]Rec {
	type key struct {
		ts uint64
		i  int
	}
	best := map[int]Rec{}
	for _, r := range recs {
		if r.Ts >= ts {
			continue
		}
		b, ok := best[r.K]
		if !ok || r.Ts >= b.Ts {
			best[r.K] = r
		}
	}
	return best
}

func acceptedCount(recs []Rec, ts uint64) int {
	n := 0
	for _, r := range latestStates(recs, ts) {
		if r.St == "A" {
			n++
		}
	}
	return n
}
