package main

import (
	"github.com/MixinNetwork/mixin/common"
	"verifharness/vh"
)

type hb struct {
	recs []Rec
	next int
}

func (h *hb) fresh() int { k := h.next; h.next++; return k }
func (h *hb) add(k int, ts uint64, st string, g bool) {
	h.recs = append(h.recs, Rec{K: k, Ts: ts, St: st, G: g})
}

// n accepted nodes: up to 3 genesis at the epoch, the rest accepted one second apart
func membership(n int, epoch uint64) *hb {
	h := &hb{}
	for i := 0; i < n; i++ {
		if i < 3 {
			h.add(h.fresh(), epoch, "A", true)
		} else {
			h.add(h.fresh(), epoch+Hour+uint64(i)*Second, "A", false)
		}
	}
	return h
}

func hourEdges(epoch, day uint64) []uint64 {
	var ts []uint64
	for h := uint64(0); h < 24; h++ {
		t := epoch + day*Day + h*Hour
		ts = append(ts, t, t+1, t+Hour-1)
	}
	return ts
}

func corpus() []Case {
	var out []Case
	e := EpochMain
	// hour predicates at every hour edge (mint needs a day after the legacy ending)
	for _, d := range []uint64{1707, 1708, 3000} {
		var q []Q
		for _, t := range hourEdges(e, d) {
			q = append(q, Q{Now: t})
		}
		out = append(out, Case{Kind: "hours", Epoch: e, Qs: q})
	}
	out = append(out, Case{Kind: "hours", Epoch: e, Qs: []Q{{Now: e}, {Now: e - 1}, {Now: e - Hour}, {Now: e - 11*Hour}, {Now: e + 7*Hour}, {Now: e + 8*Hour + 5}, {Now: e + 1}, {Now: 0}, {Now: e + 13*Hour}}})
	var pq []Q
	for _, t := range hourEdges(e, 40) {
		pq = append(pq, Q{Now: t})
	}
	pq = append(pq, Q{Now: e - 1}, Q{Now: e}, Q{Now: 0})
	out = append(out, Case{Kind: "prepare", Epoch: e, Qs: pq})
	// elections below the minimum and with operations that are not elected
	for n := 1; n <= 8; n++ {
		h := membership(n, e)
		var q []Q
		for _, op := range []int{common.TransactionTypeMint, common.TransactionTypeNodeRemove, 0, common.TransactionTypeNodeAccept, 255} {
			q = append(q, Q{Op: op, Now: e + 5*Day + 3}, Q{Op: op, Now: e + 6*Day + 14*Hour})
		}
		q = append(q, Q{Op: common.TransactionTypeMint, Now: e}, Q{Op: common.TransactionTypeMint, Now: e + 1}, Q{Op: common.TransactionTypeMint, Now: e + Hour + 3*Second})
		out = append(out, Case{Kind: "elect", Name: "small", Epoch: e, Recs: h.recs, Qs: q})
	}
	// removal candidates: 7 (never), 8 and 9 nodes at every hour edge, asked by the candidate, by others, by nobody
	for _, n := range []int{7, 8, 9, 50} {
		h := membership(n, e)
		var q []Q
		for _, t := range hourEdges(e, 9) {
			q = append(q, Q{Now: t, Node: 0})
		}
		for k := 0; k < n && k < 5; k++ {
			q = append(q, Q{Now: e + 9*Day + 15*Hour, Node: k + 1})
			q = append(q, Q{Now: e + 9*Day + 15*Hour, Node: k + 1, Old: k + 1})
			q = append(q, Q{Now: e + 9*Day + 15*Hour, Node: 0, Old: k + 1})
		}
		q = append(q, Q{Now: e + 13*Hour, Node: 0}, Q{Now: e + 12*Hour + Hour + 2*Second, Node: 0}, Q{Now: e + Day + 13*Hour, Node: 0})
		out = append(out, Case{Kind: "remove", Name: "edges", Epoch: e, Recs: h.recs, Qs: q})
	}
	// accept / cancel timing around the pledge period bounds and the hour edges
	{
		h := membership(9, e)
		x := h.fresh()
		p := e + 20*Day + 1*Hour + 7
		h.add(x, p, "P", false)
		var q []Q
		for _, chain := range []int{x + 1, 0, 2} {
			for _, t := range []uint64{p + 12*Hour - 1, p + 12*Hour, p + 12*Hour + 1, p + 7*Day - 1, p + 7*Day, p + 7*Day + 1,
				e + 27*Day + 13*Hour, e + 27*Day + 1*Hour + 7, e + 27*Day + 1*Hour + 8, p, p + 1, p - 1} {
				q = append(q, Q{Now: t, Chain: chain})
			}
			for _, t := range hourEdges(e, 22) {
				q = append(q, Q{Now: t, Chain: chain})
			}
		}
		out = append(out, Case{Kind: "timing", Name: "bounds", Epoch: e, Recs: h.recs, Qs: q})
	}
	out = append(out, consumersCorpus()...)
	out = append(out, unalignedCorpus()...)
	return out
}

var kindPatterns = [][]int{{1, 2, 2, 0, 2, 1, 2}, {0, 1, 2}, {2, 1}, {1, 1, 2, 2, 2, 2, 2, 2}, {2, 2, 2}, {0}}

// elections of every operation on several days, all after the last record
func consumerQueries(epoch uint64, day uint64) []Q {
	var q []Q
	for d := uint64(0); d < 4; d++ {
		for _, op := range validOps {
			q = append(q, Q{Op: op, Now: epoch + (day+d)*Day + (7+3*d)*Hour + d})
		}
	}
	return q
}

func consumersCorpus() []Case {
	var out []Case
	for i, n := range []int{7, 8, 9, 12, 23, 50} {
		h := membership(n, EpochMain)
		for j := 0; j < 2; j++ {
			out = append(out, Case{Kind: "consumers", Name: "sizes", Epoch: EpochMain, Mainnet: i%2 == 0, Recs: h.recs,
				Kinds: kindPatterns[(i+3*j)%len(kindPatterns)], Qs: consumerQueries(EpochMain, 40+uint64(i))})
		}
	}
	return out
}

// consumersFrom turns a random history into a consumers case
func consumersFrom(r *vh.Rand, cs Case) Case {
	var last uint64
	for _, rec := range cs.Recs {
		if rec.Ts > last {
			last = rec.Ts
		}
	}
	day := (last-cs.Epoch)/Day + 2
	return Case{Kind: "consumers", Name: "random", Epoch: cs.Epoch, Mainnet: cs.Mainnet, Recs: cs.Recs,
		Kinds: kindPatterns[r.Intn(len(kindPatterns))], Qs: consumerQueries(cs.Epoch, day)}
}

// absoluteHourEdges are the instants around the wall-clock hour boundaries of
// an epoch day: for an epoch that is not a whole number of hours they lie
// inside the epoch hours, within the epoch's sub-hour offset of a boundary.
func absoluteHourEdges(epoch, day uint64) []uint64 {
	var ts []uint64
	base := (epoch+day*Day)/Hour*Hour
	for h := uint64(0); h <= 24; h++ {
		t := base + h*Hour
		ts = append(ts, t-1, t, t+1)
	}
	return ts
}

// unalignedCorpus: the hour windows on nodes whose epoch is not a whole number
// of hours (and the aligned epoch as control): every predicate and every
// operation at each window boundary +-1 ns and at the wall-clock hour
// boundaries inside the epoch hours.
func unalignedCorpus() []Case {
	var out []Case
	for i, off := range []uint64{0, 1, 37 * 60 * Second, Hour - 1, 59*60*Second + 999999999, Hour / 2} {
		e := EpochMain + off
		var hq, pq []Q
		for _, d := range []uint64{1707, 1711} {
			for _, t := range hourEdges(e, d) {
				hq = append(hq, Q{Now: t})
			}
			for _, t := range absoluteHourEdges(e, d) {
				hq = append(hq, Q{Now: t})
			}
		}
		hq = append(hq, Q{Now: e}, Q{Now: e - 1}, Q{Now: e + 1})
		out = append(out, Case{Kind: "hours", Name: "unaligned", Epoch: e, Qs: hq})
		for _, t := range append(hourEdges(e, 41), absoluteHourEdges(e, 41)...) {
			pq = append(pq, Q{Now: t})
		}
		out = append(out, Case{Kind: "prepare", Name: "unaligned", Epoch: e, Qs: pq})
		// removal by 9 nodes
		h := membership(9, e)
		var rq []Q
		for _, t := range append(hourEdges(e, 9), absoluteHourEdges(e, 9)...) {
			rq = append(rq, Q{Now: t, Node: 0})
		}
		out = append(out, Case{Kind: "remove", Name: "unaligned", Epoch: e, Mainnet: i%2 == 0, Recs: h.recs, Qs: rq})
		// accept / cancel of a node pledged on day 20
		x := h.fresh()
		p := e + 20*Day + 1*Hour + 7
		h.add(x, p, "P", false)
		var tq []Q
		for _, chain := range []int{x + 1, 0} {
			for _, t := range append(hourEdges(e, 22), absoluteHourEdges(e, 22)...) {
				tq = append(tq, Q{Now: t, Chain: chain})
			}
		}
		out = append(out, Case{Kind: "timing", Name: "unaligned", Epoch: e, Mainnet: i%2 == 0, Recs: h.recs, Qs: tq})
		// elections across the epoch-day boundaries
		h2 := membership(9, e)
		var eq []Q
		for d := uint64(3); d < 10; d++ {
			for _, t := range []uint64{e + d*Day - 1, e + d*Day, e + d*Day + 1, (e+d*Day)/Day*Day - 1, (e+d*Day)/Day*Day, (e+d*Day)/Hour*Hour + Hour} {
				eq = append(eq, Q{Op: validOps[int(d)%len(validOps)], Now: t})
			}
		}
		out = append(out, Case{Kind: "elect", Name: "unaligned", Epoch: e, Mainnet: i%2 == 1, Recs: h2.recs, Qs: eq})
	}
	return out
}

func sweep(c *vh.Ctx) []Case {
	var out []Case
	count := c.Scale(365, 3650)
	if c.Tier == "search" {
		count = 3650
	}
	for n := 7; n <= 50; n++ {
		h := membership(n, EpochMain)
		ops := []int{common.TransactionTypeNodeRemove, validOps[n%len(validOps)]}
		if c.Tier != "quick" {
			ops = validOps
		}
		seen := map[int]bool{}
		for _, op := range ops {
			if seen[op] {
				op = common.TransactionTypeMint
			}
			if seen[op] {
				continue
			}
			seen[op] = true
			out = append(out, Case{Kind: "sweep", Name: "sizes", Epoch: EpochMain, Mainnet: n%2 == 0, Recs: h.recs, Op: op,
				Now0: EpochMain + 2*Day + 11*Second, Step: Day + Hour, Count: count, Full: true})
		}
	}
	return out
}

var pledgeHours = []uint64{0, 1, 2, 3, 4, 5, 6, 10, 11, 12, 20, 21, 22, 23}

func randomCases(r *vh.Rand, idx int) []Case {
	mainnet := r.Bool()
	epoch := EpochMain
	h := &hb{}
	g := r.Range(6, 20)
	if r.Chance(1, 6) {
		g = r.Range(1, 8)
	}
	var accepted []int
	for i := 0; i < g; i++ {
		k := h.fresh()
		h.add(k, epoch, "A", true)
		accepted = append(accepted, k)
	}
	pledging, pledgedAt := -1, uint64(0)
	day := uint64(1)
	steps := r.Range(3, 30)
	marks := []uint64{epoch + 13*Hour}
	var pledges []uint64
	for s := 0; s < steps && h.next < poolSize-2; s++ {
		day += uint64(r.Range(1, 3))
		d := epoch + day*Day
		jitter := uint64(r.Intn(3600)) * Second
		if r.Chance(1, 4) {
			jitter += uint64(r.Intn(1000000000))
		}
		if pledging >= 0 && (s < steps-1 || r.Bool()) {
			hr := uint64(r.Range(13, 19))
			if r.Chance(1, 10) {
				hr = uint64(r.Intn(24))
			}
			at := d + hr*Hour + jitter
			if at <= pledgedAt {
				continue
			}
			if r.Chance(4, 5) {
				h.add(pledging, at, "A", false)
				accepted = append(accepted, pledging)
			} else {
				h.add(pledging, at, "C", false)
			}
			marks = append(marks, at, at+12*Hour, at+Day)
			pledging = -1
			continue
		}
		if pledging >= 0 {
			continue
		}
		if r.Chance(1, 3) && len(accepted) > 7 {
			at := d + uint64(r.Range(13, 19))*Hour + jitter
			acc := acceptedSorted(mainnet, h.recs, at)
			if len(acc) == 0 {
				continue
			}
			k := acc[0]
			if r.Chance(1, 8) {
				k = acc[r.Intn(len(acc))]
			}
			for i, a := range accepted {
				if a == k {
					accepted = append(accepted[:i:i], accepted[i+1:]...)
					break
				}
			}
			h.add(k, at, "R", false)
			marks = append(marks, at, d+13*Hour, d+20*Hour)
		} else {
			hr := pledgeHours[r.Intn(len(pledgeHours))]
			at := d + hr*Hour + jitter
			pledging, pledgedAt = h.fresh(), at
			h.add(pledging, at, "P", false)
			pledges = append(pledges, at)
			marks = append(marks, at, at+12*Hour, at+7*Day)
		}
	}
	recs := append([]Rec{}, h.recs...)
	for i := len(recs) - 1; i > 0; i-- {
		j := r.Intn(i + 1)
		recs[i], recs[j] = recs[j], recs[i]
	}
	pick := func() uint64 {
		var ts uint64
		switch r.Intn(4) {
		case 0:
			ts = epoch + uint64(r.Intn(int(day)+4))*Day + uint64(r.Intn(24))*Hour + uint64(r.Intn(3600))*Second
		case 1:
			ts = epoch + uint64(r.Intn(int(day)+4))*Day + []uint64{13, 20, 12, 19, 14, 16}[r.Intn(6)]*Hour
		default:
			ts = marks[r.Intn(len(marks))]
			if r.Bool() {
				// same instant moved into the operation window of a following day
				ts = ts - (ts-epoch)%Day + uint64(r.Range(1, 3))*Day + uint64(r.Range(13, 19))*Hour
			}
		}
		return ts + uint64(r.Intn(4)) - 1
	}
	var out []Case
	var eq, rq, tq []Q
	opsAll := append(append([]int{}, validOps...), 0, common.TransactionTypeNodeAccept, 200)
	for i := 0; i < 8; i++ {
		eq = append(eq, Q{Op: opsAll[r.Intn(len(opsAll))], Now: pick()})
	}
	out = append(out, Case{Kind: "elect", Name: "random", Epoch: epoch, Mainnet: mainnet, Recs: recs, Qs: eq})
	for i := 0; i < 10; i++ {
		q := Q{Now: pick()}
		switch r.Intn(4) {
		case 0:
			q.Node = r.Intn(h.next) + 1
		case 1:
			acc := acceptedSorted(mainnet, recs, q.Now)
			if len(acc) > 0 {
				q.Node = acc[0] + 1
			}
		}
		if r.Chance(1, 3) {
			q.Old = r.Intn(len(recs)) + 1
		}
		rq = append(rq, q)
	}
	out = append(out, Case{Kind: "remove", Name: "random", Epoch: epoch, Mainnet: mainnet, Recs: recs, Qs: rq})
	if len(pledges) > 0 {
		for i := 0; i < 10; i++ {
			p := pledges[r.Intn(len(pledges))]
			var ts uint64
			switch r.Intn(4) {
			case 0:
				ts = p + 12*Hour + uint64(r.Intn(3)) - 1
			case 1:
				ts = p + 7*Day + uint64(r.Intn(3)) - 1
			case 2:
				ts = p - (p-epoch)%Day + uint64(r.Range(0, 8))*Day + uint64(r.Range(12, 20))*Hour + uint64(r.Intn(3)) - 1
			default:
				ts = pick()
			}
			chain := 0
			if r.Bool() {
				for k, rec := range latestStates(recs, ts) {
					if rec.St == "P" {
						chain = k + 1
					}
				}
				if chain == 0 || r.Chance(1, 6) {
					chain = r.Intn(h.next) + 1
				}
			}
			tq = append(tq, Q{Now: ts, Chain: chain})
		}
		out = append(out, Case{Kind: "timing", Name: "random", Epoch: epoch, Mainnet: mainnet, Recs: recs, Qs: tq})
	}
	return out
}
