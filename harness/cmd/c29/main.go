// C29 harness: operator election, removal candidate, hour windows and
// accept/cancel timing on the real kernel (electSnapshotNode,
// checkRemovePossibility, checkConsensusAcceptHour, checkConsensusPledgeHour,
// checkUniversalMintPossibility, checkNodeAcceptPossibility,
// validateNodeCancelSnapshot, prepareNodeRemovalTime) over membership
// histories loaded by the real LoadConsensusNodes.  Observations become Coq
// cases for Model/Election.v; the oracle transcribes the property: the elected
// node is the same on every node (a second node fed the same history in
// another order), never the oldest or newest accepted node, never the node it
// removes, and operations are valid only inside their hour windows.
package main

import (
	"fmt"
	"math/big"
	"sort"

	"github.com/MixinNetwork/mixin/common"
	"github.com/MixinNetwork/mixin/config"
	"github.com/MixinNetwork/mixin/crypto"
	"github.com/MixinNetwork/mixin/kernel"
	"verifharness/vh"
)

type Q struct {
	Op    int    `json:"op,omitempty"`
	Now   uint64 `json:"now"`
	Node  int    `json:"node,omitempty"`  // pool index + 1 of the node asking (remove), 0 = zero hash
	Old   int    `json:"old,omitempty"`   // record index + 1 whose transaction is `old`, 0 = nil
	Chain int    `json:"chain,omitempty"` // pool index + 1 of the accepting chain, 0 = cancel
}

type Case struct {
	Kind    string `json:"kind"`
	Name    string `json:"name,omitempty"`
	Epoch   uint64 `json:"epoch"`
	Mainnet bool   `json:"mainnet,omitempty"`
	Recs    []Rec  `json:"recs,omitempty"`
	Op      int    `json:"op,omitempty"`
	Now0    uint64 `json:"now0,omitempty"`
	Step    uint64 `json:"step,omitempty"`
	Count   int    `json:"count,omitempty"`
	Full    bool   `json:"full,omitempty"` // oracle additionally visits every hour of every day of the sweep
	Kinds   []int  `json:"kinds,omitempty"` // consumers: chain state per accepted position (cycled): 0 none, 1 lagging, 2 leading
	Qs      []Q    `json:"qs,omitempty"`
}

var validOps = []int{common.TransactionTypeMint, common.TransactionTypeNodeRemove, common.TransactionTypeNodePledge,
	common.TransactionTypeCustodianUpdateNodes, common.TransactionTypeCustodianSlashNodes}

func isValidOp(op int) bool {
	for _, o := range validOps {
		if o == op {
			return true
		}
	}
	return false
}

// acceptedSorted is the harness' own view of the accepted list at ts (latest
// state per identity, ordered by (timestamp, numeric id)).
func acceptedSorted(mainnet bool, recs []Rec, ts uint64) []int {
	nw := nets[mainnet]
	type e struct {
		k  int
		ts uint64
	}
	var es []e
	for k, r := range latestStates(recs, ts) {
		if r.St == "A" {
			es = append(es, e{k, r.Ts})
		}
	}
	for i := 1; i < len(es); i++ {
		for j := i; j > 0; j-- {
			a, b := es[j-1], es[j]
			if a.ts > b.ts || (a.ts == b.ts && nw.rank[nw.ids[a.k]] > nw.rank[nw.ids[b.k]]) {
				es[j-1], es[j] = es[j], es[j-1]
			} else {
				break
			}
		}
	}
	out := make([]int, len(es))
	for i, x := range es {
		out[i] = x.k
	}
	return out
}

func shuffled(recs []Rec, seed uint64) []Rec {
	r := vh.NewRand(seed, "c29 shuffle")
	out := append([]Rec{}, recs...)
	for i := len(out) - 1; i > 0; i-- {
		j := r.Intn(i + 1)
		out[i], out[j] = out[j], out[i]
	}
	return out
}

type electRes struct {
	id  crypto.Hash
	pan bool
}

func electOn(node *kernel.Node, op int, now uint64) electRes {
	var id crypto.Hash
	pan, _ := vh.Catch(func() { id = node.VerifC10ElectSnapshotNode(byte(op), now) })
	return electRes{id, pan}
}

// failCase, when set, is the case recorded with an election failure (the
// enclosing consumers case: replaying the bare election on a fresh node would
// not re-run the consumers).
var failCase *Case

// oracle for one election
func oracleElect(c *vh.Ctx, cs Case, node, twin *kernel.Node, op int, now uint64) electRes {
	nw := nets[cs.Mainnet]
	one := Case{Kind: "elect", Name: cs.Name, Epoch: cs.Epoch, Mainnet: cs.Mainnet, Recs: cs.Recs, Qs: []Q{{Op: op, Now: now}}}
	if failCase != nil {
		one = *failCase
	}
	r := electOn(node, op, now)
	r2 := electOn(twin, op, now)
	if r != r2 {
		c.Fail("election-differs-between-nodes", fmt.Sprintf("op %d at %d: two nodes with the same membership elect %s and %s", op, now, r.id, r2.id), one)
	}
	if r.pan || !isValidOp(op) {
		return r
	}
	acc := acceptedSorted(cs.Mainnet, cs.Recs, now)
	if len(acc) < config.KernelMinimumNodesCount {
		return r
	}
	if r.id == nw.ids[acc[0]] {
		c.Fail("elected-oldest-accepted", fmt.Sprintf("op %d at %d elected the oldest accepted node", op, now), one)
	}
	if r.id == nw.ids[acc[len(acc)-1]] {
		c.Fail("elected-newest-accepted", fmt.Sprintf("op %d at %d elected the newest accepted node", op, now), one)
	}
	found := false
	for _, k := range acc {
		if nw.ids[k] == r.id {
			found = true
		}
	}
	if !found {
		c.Fail("elected-not-accepted", fmt.Sprintf("op %d at %d elected %s which is not an accepted node", op, now, r.id), one)
	}
	if op == common.TransactionTypeNodeRemove {
		// the node this election would remove
		cn, err := node.VerifC10CheckRemovePossibility(r.id, now, nil)
		if err == nil && cn != nil && cn.IdForNetwork == r.id {
			c.Fail("elected-removes-itself", fmt.Sprintf("at %d the elected node is the removal candidate", now), one)
		}
		cn0, err0 := node.VerifC10CheckRemovePossibility(crypto.Hash{}, now, nil)
		if err0 == nil && cn0 != nil && cn0.IdForNetwork == r.id {
			c.Fail("elected-removes-itself", fmt.Sprintf("at %d the elected node %s is the removal candidate", now, r.id), one)
		}
		if err0 == nil {
			h := epochHour(now, cs.Epoch)
			if h < 13 || h > 19 {
				c.Fail("removal-outside-window", fmt.Sprintf("removal possible at hour %d", h), one)
			}
		}
	}
	return r
}

func obsElect(nw *network, r electRes) string {
	if r.pan {
		return "(-1)"
	}
	return coqId(nw, r.id)
}

func runSweep(c *vh.Ctx, cs Case) {
	nw := nets[cs.Mainnet]
	node := buildNode(cs.Mainnet, cs.Epoch, cs.Recs)
	defer node.VerifC10Close()
	twin := buildNode(cs.Mainnet, cs.Epoch, shuffled(cs.Recs, cs.Epoch+uint64(len(cs.Recs))))
	defer twin.VerifC10Close()
	code := new(big.Int)
	var rs []electRes
	for i := 0; i < cs.Count; i++ {
		now := cs.Now0 + uint64(i)*cs.Step
		rs = append(rs, oracleElect(c, cs, node, twin, cs.Op, now))
		if cs.Full {
			// every hour of that day, oracle only
			day := (now - cs.Epoch) / Day
			for h := uint64(0); h < 24; h++ {
				t := cs.Epoch + day*Day + h*Hour + uint64(i%3600)*Second
				oracleElect(c, cs, node, twin, cs.Op, t)
				c.Count("oracle:elect-hourly")
			}
		}
	}
	for i := len(rs) - 1; i >= 0; i-- {
		if rs[i].pan {
			panic("sweep over a membership below the minimum")
		}
		code.Lsh(code, 7)
		code.Add(code, big.NewInt(int64(nw.rank[rs[i].id])))
	}
	term := vh.App("CElectSweep", zts(cs.Epoch), coqRecs(nw, cs.Recs), fmt.Sprint(cs.Op), zts(cs.Now0), zts(cs.Step),
		fmt.Sprint(cs.Count), "0x"+code.Text(16))
	n := len(acceptedSorted(cs.Mainnet, cs.Recs, cs.Now0))
	c.Case("sweep:"+cs.Name, fmt.Sprintf("sweep|%d|%d|%d", n, cs.Op, (cs.Now0-cs.Epoch)/Day), true, cs, term)
}

func runElect(c *vh.Ctx, cs Case) {
	nw := nets[cs.Mainnet]
	node := buildNode(cs.Mainnet, cs.Epoch, cs.Recs)
	defer node.VerifC10Close()
	twin := buildNode(cs.Mainnet, cs.Epoch, shuffled(cs.Recs, 7))
	defer twin.VerifC10Close()
	var qt []string
	nt := false
	for _, q := range cs.Qs {
		r := oracleElect(c, cs, node, twin, q.Op, q.Now)
		if !r.pan && isValidOp(q.Op) {
			nt = true
		}
		qt = append(qt, fmt.Sprintf("(%d, %s, %s)", q.Op, zts(q.Now), obsElect(nw, r)))
	}
	c.Case("elect:"+cs.Name, fmt.Sprintf("elect|%s|%d|%v", cs.Name, len(cs.Recs), qt), nt, cs,
		vh.App("CElect", zts(cs.Epoch), coqRecs(nw, cs.Recs), lst(qt)))
}

func runRemove(c *vh.Ctx, cs Case) {
	nw := nets[cs.Mainnet]
	node := buildNode(cs.Mainnet, cs.Epoch, cs.Recs)
	defer node.VerifC10Close()
	var qt []string
	nt := false
	for _, q := range cs.Qs {
		var nid crypto.Hash
		if q.Node > 0 {
			nid = nw.ids[q.Node-1]
		}
		var old *common.VersionedTransaction
		if q.Old > 0 {
			old = recTx(q.Old - 1)
		}
		cn, err := node.VerifC10CheckRemovePossibility(nid, q.Now, old)
		o := "(-2)"
		one := Case{Kind: "remove", Name: cs.Name, Epoch: cs.Epoch, Mainnet: cs.Mainnet, Recs: cs.Recs, Qs: []Q{q}}
		if err == nil {
			nt = true
			o = coqId(nw, cn.IdForNetwork)
			// oracle: removal only in hours 13..19 of the epoch day, never of the asking node,
			// and without a named transaction the candidate is the oldest accepted node
			h := epochHour(q.Now, cs.Epoch)
			if q.Now < cs.Epoch || h < 13 || h > 19 {
				c.Fail("removal-outside-window", fmt.Sprintf("removal possible at hour %d (now %d)", h, q.Now), one)
			}
			if cn.IdForNetwork == nid {
				c.Fail("node-removes-itself", "checkRemovePossibility let a node handle its own removal", one)
			}
			acc := acceptedSorted(cs.Mainnet, cs.Recs, q.Now)
			if q.Old == 0 && (len(acc) == 0 || nw.ids[acc[0]] != cn.IdForNetwork) {
				c.Fail("removal-candidate-not-oldest", "the removal candidate is not the oldest accepted node", one)
			}
			if len(acc) <= config.KernelMinimumNodesCount {
				c.Fail("removal-below-minimum", fmt.Sprintf("removal possible with %d accepted nodes", len(acc)), one)
			}
		}
		qt = append(qt, fmt.Sprintf("(%s, %s, %d, %s)", coqId(nw, nid), zts(q.Now), q.Old, o))
	}
	c.Case("remove:"+cs.Name, fmt.Sprintf("remove|%s|%d|%v", cs.Name, len(cs.Recs), qt), nt, cs,
		vh.App("CRemove", zts(cs.Epoch), coqRecs(nw, cs.Recs), lst(qt)))
}

func inRange(h, a, b uint64) bool { return h >= a && h <= b }

// epochHour is floor((t - epoch) / hour) mod 24 in unbounded integers (t >= epoch).
func epochHour(t, epoch uint64) uint64 {
	d := new(big.Int).Sub(new(big.Int).SetUint64(t), new(big.Int).SetUint64(epoch))
	d.Div(d, new(big.Int).SetUint64(Hour))
	d.Mod(d, big.NewInt(24))
	return d.Uint64()
}

func runHours(c *vh.Ctx, cs Case) {
	node := buildNode(cs.Mainnet, cs.Epoch, nil)
	defer node.VerifC10Close()
	node.VerifC10SetLastMint(kernel.KernelNetworkLegacyEnding)
	var qt []string
	for _, q := range cs.Qs {
		a := node.VerifC10CheckConsensusAcceptHour(q.Now)
		p := node.VerifC10CheckConsensusPledgeHour(q.Now)
		m := node.VerifC10MintBatch(q.Now, false)
		qt = append(qt, fmt.Sprintf("(%s, %s, %s, %d)", zts(q.Now), vh.Bool(a), vh.Bool(p), m))
		if q.Now >= cs.Epoch {
			// documented windows (hours of the epoch day): accept/cancel/remove 13..19, mint 7..9, pledge any other
			h := epochHour(q.Now, cs.Epoch)
			one := Case{Kind: "hours", Epoch: cs.Epoch, Qs: []Q{q}}
			if a != inRange(h, 13, 19) {
				c.Fail("accept-hour-window", fmt.Sprintf("accept hour predicate is %v at hour %d", a, h), one)
			}
			if p != (!inRange(h, 13, 19) && !inRange(h, 7, 9)) {
				c.Fail("pledge-hour-window", fmt.Sprintf("pledge hour predicate is %v at hour %d", p, h), one)
			}
			if (m != 0) != (inRange(h, 7, 9) && (q.Now-cs.Epoch)/Day >= 1 && q.Now > cs.Epoch) {
				c.Fail("mint-hour-window", fmt.Sprintf("mint batch %d at hour %d of day %d", m, h, (q.Now-cs.Epoch)/Day), one)
			}
			if m != 0 && m != (q.Now-cs.Epoch)/Day {
				c.Fail("mint-batch-not-day", fmt.Sprintf("mint batch %d on day %d", m, (q.Now-cs.Epoch)/Day), one)
			}
		}
	}
	c.Case("hours", fmt.Sprintf("hours|%v", qt), true, cs, vh.App("CHours", zts(cs.Epoch), lst(qt)))
}

func runPrepare(c *vh.Ctx, cs Case) {
	var qt []string
	for _, q := range cs.Qs {
		t, ok := kernel.VerifC10PrepareNodeRemovalTime(q.Now, cs.Epoch)
		o := "(-1)"
		if ok {
			o = zts(t)
			// the prepared time is the start of an operation window: hour 13 sharp
			if (t-cs.Epoch)%Day != 13*Hour {
				c.Fail("prepared-removal-time-not-window-start", fmt.Sprintf("prepared %d", t), Case{Kind: "prepare", Epoch: cs.Epoch, Qs: []Q{q}})
			}
		}
		qt = append(qt, fmt.Sprintf("(%s, %s)", zts(q.Now), o))
	}
	c.Case("prepare", fmt.Sprintf("prepare|%v", qt), true, cs, vh.App("CPrepare", zts(cs.Epoch), lst(qt)))
}

func runTiming(c *vh.Ctx, cs Case) {
	nw := nets[cs.Mainnet]
	node := buildNode(cs.Mainnet, cs.Epoch, cs.Recs)
	defer node.VerifC10Close()
	var qt []string
	nt := false
	for _, q := range cs.Qs {
		var err error
		chainS := "0"
		if q.Chain > 0 {
			id := nw.ids[q.Chain-1]
			var info *kernel.CNode
			for _, cn := range node.NodesListWithoutState(q.Now, false) {
				if cn.IdForNetwork == id {
					info = cn
				}
			}
			if info == nil {
				continue
			}
			chain := node.VerifC10ChainWithInfo(id, info, false)
			err = chain.VerifC10CheckNodeAcceptPossibility(q.Now, true)
			chainS = coqId(nw, id)
		} else {
			s := &common.Snapshot{Version: common.SnapshotVersionCommonEncoding, NodeId: nw.ids[0], Timestamp: q.Now}
			err = node.VerifC10ValidateNodeCancelSnapshot(s, recTx(0), true)
		}
		ok := err == nil
		if ok {
			nt = true
			one := Case{Kind: "timing", Name: cs.Name, Epoch: cs.Epoch, Mainnet: cs.Mainnet, Recs: cs.Recs, Qs: []Q{q}}
			h := epochHour(q.Now, cs.Epoch)
			if q.Now < cs.Epoch || h < 13 || h > 19 {
				c.Fail("accept-cancel-outside-window", fmt.Sprintf("accept/cancel valid at hour %d", h), one)
			}
			// the pledge must be at least the minimum period and at most the maximum period old
			var pl *Rec
			for _, r := range latestStates(cs.Recs, q.Now) {
				if r.St == "P" {
					rr := r
					pl = &rr
				}
			}
			if pl == nil {
				c.Fail("accept-cancel-without-pledge", "accept/cancel valid without a pledging node", one)
			} else if q.Now-pl.Ts < 12*Hour || q.Now-pl.Ts > 7*Day {
				c.Fail("accept-cancel-period", fmt.Sprintf("accept/cancel valid %d ns after the pledge", q.Now-pl.Ts), one)
			}
		}
		qt = append(qt, fmt.Sprintf("(%s, %s, %s)", zts(q.Now), chainS, vh.Bool(ok)))
	}
	c.Case("timing:"+cs.Name, fmt.Sprintf("timing|%s|%d|%v", cs.Name, len(cs.Recs), qt), nt, cs,
		vh.App("CTiming", zts(cs.Epoch), coqRecs(nw, cs.Recs), lst(qt)))
}

// runConsumers: the membership lists handed to electSnapshotNode are the node's
// memoised slices, and the same slices are handed to the cache-queue code.  The
// same elections are asked before and after each of those consumers ran on the
// same node; the answer must not change, must equal a fresh node's, and must
// never be an end of the accepted list.
func runConsumers(c *vh.Ctx, cs Case) {
	nw := nets[cs.Mainnet]
	node := buildNode(cs.Mainnet, cs.Epoch, cs.Recs)
	defer node.VerifC10Close()
	twin := buildNode(cs.Mainnet, cs.Epoch, shuffled(cs.Recs, 11))
	defer twin.VerifC10Close()
	var maxNow uint64
	for _, q := range cs.Qs {
		if q.Now > maxNow {
			maxNow = q.Now
		}
	}
	acc := node.NodesListWithoutState(maxNow, true)
	if len(acc) == 0 || len(cs.Kinds) == 0 {
		return
	}
	ids := make([]crypto.Hash, len(acc))
	kinds := make([]int, len(acc))
	for i, cn := range acc {
		ids[i] = cn.IdForNetwork
		kinds[i] = cs.Kinds[i%len(cs.Kinds)]
	}
	node.VerifC10InstallChains(ids[len(ids)/2], ids, kinds)
	failCase = &cs
	defer func() { failCase = nil }()
	query := func() []electRes {
		var rs []electRes
		for _, q := range cs.Qs {
			rs = append(rs, oracleElect(c, cs, node, twin, q.Op, q.Now))
		}
		return rs
	}
	emit := func(tag string, rs []electRes) {
		var qt []string
		for i, q := range cs.Qs {
			qt = append(qt, fmt.Sprintf("(%d, %s, %s)", q.Op, zts(q.Now), obsElect(nw, rs[i])))
		}
		c.Case("consumers:"+tag, fmt.Sprintf("consumers|%s|%s|%d|%v|%v", tag, cs.Name, len(cs.Recs), cs.Kinds, qt), true, cs,
			vh.App("CElect", zts(cs.Epoch), coqRecs(nw, cs.Recs), lst(qt)))
	}
	before := query()
	emit("before", before)
	type step struct {
		name string
		f    func()
	}
	steps := []step{
		{"control-sorted-copy", func() {
			cp := append([]*kernel.CNode{}, node.VerifC10ListWorkingAcceptedNodes(maxNow)...)
			sort.Slice(cp, func(i, j int) bool { return cp[i].IdForNetwork.String() > cp[j].IdForNetwork.String() })
		}},
		{"filterLeadingNodes(accepted)", func() {
			for _, q := range cs.Qs {
				node.VerifC10FilterLeadingNodes(node.NodesListWithoutState(q.Now, true))
			}
		}},
		{"filterLeadingNodes(working)", func() {
			for _, q := range cs.Qs {
				node.VerifC10FilterLeadingNodes(node.VerifC10ListWorkingAcceptedNodes(q.Now))
			}
		}},
		{"findSnapshotNodes", func() {
			all := node.VerifC10ListWorkingAcceptedNodes(maxNow)
			leading, filter := node.VerifC10FilterLeadingNodes(all)
			node.VerifC10FindSnapshotNodes(all, leading, filter, crypto.Blake3Hash([]byte("c29 consumers")))
			for _, cn := range all {
				node.VerifC10ChainCanProposeSnapshot(all, cn.IdForNetwork, maxNow)
			}
		}},
		{"popAndProcessCacheQueue", func() { node.VerifC10PopAndProcessCacheQueue() }},
	}
	after := before
	for _, st := range steps {
		if pan, v := vh.Catch(st.f); pan {
			c.Note(fmt.Sprintf("consumer %s panicked: %v", st.name, v))
			c.Count("consumer-panic:" + st.name)
		}
		after = query()
		for i := range after {
			if after[i] != before[i] {
				one := cs
				c.Fail("election-changed-after-"+st.name, fmt.Sprintf("op %d at %d: elected %s before and %s after %s ran on the same node",
					cs.Qs[i].Op, cs.Qs[i].Now, before[i].id, after[i].id, st.name), one)
				break
			}
		}
	}
	emit("after", after)
}

func run(c *vh.Ctx, cs Case) {
	switch cs.Kind {
	case "consumers":
		runConsumers(c, cs)
	case "sweep":
		runSweep(c, cs)
	case "elect":
		runElect(c, cs)
	case "remove":
		runRemove(c, cs)
	case "hours":
		runHours(c, cs)
	case "prepare":
		runPrepare(c, cs)
	case "timing":
		runTiming(c, cs)
	default:
		panic("unknown kind " + cs.Kind)
	}
}

func main() {
	c := vh.Start("C29")
	initPool()
	c.Rep.Rule = "sweep = one membership size (7..50) x operation x every day of the period (one election per day sent to the model, " +
		"every hour of every day checked by the oracle on two real nodes fed the history in different orders); elect/remove/timing = " +
		"random membership histories (genesis/pledge/accept/cancel/remove) queried at window edges +-1 ns, with and without a named removal " +
		"transaction, by asking nodes inside and outside the membership; hours = the three hour predicates at every hour edge; " +
		"consumers = the same elections before and after filterLeadingNodes / findSnapshotNodes / one cache-queue poll ran on the same node over its memoised membership slices (lagging and leading chains mixed), compared with a fresh node; " +
		"non-trivial = the election/removal/timing check passed its early rejects; distinct = different history and observation vector"
	if c.Replay != "" {
		var cs Case
		c.ReplayCase(&cs)
		run(c, cs)
		c.Finish()
		return
	}
	for _, cs := range corpus() {
		run(c, cs)
	}
	for _, cs := range sweep(c) {
		run(c, cs)
	}
	n := c.Scale(120, 3000)
	rng := c.Rng.Fork("random histories")
	for i := 0; i < n; i++ {
		for _, cs := range randomCases(rng, i) {
			run(c, cs)
			if cs.Kind == "elect" && i%6 == 0 {
				run(c, consumersFrom(rng, cs))
			}
		}
	}
	c.Finish()
}
