// C27 harness: runs sequences of pledge/accept/cancel/remove operations on a
// real Badger store, either as node-typed transactions finalized by the public
// LoadGenesis / LockUTXOs / WriteTransaction / WriteSnapshot API ("snap") or by
// calling the unexported membership writes through the add-only hook
// ("direct"), observes the decision and ReadAllNodes after every operation,
// emits the observations as a Coq case for the model, and checks the
// implementation directly against the lifecycle stated by the property (the
// oracle, which keeps its own per-node state in operation order).
package main

import (
	"bytes"
	"encoding/hex"
	"fmt"
	"os"
	"sort"
	"strings"

	"github.com/MixinNetwork/mixin/common"
	"github.com/MixinNetwork/mixin/config"
	"github.com/MixinNetwork/mixin/crypto"
	"github.com/MixinNetwork/mixin/storage"
	"verifharness/vh"
)

type Op struct {
	Kind    string `json:"kind"` // pledge | accept | cancel | remove
	Signer  string `json:"signer"`
	Payee   string `json:"payee"`
	Tx      string `json:"tx,omitempty"` // direct: hash handed to the write; snap: derived from the built transaction
	Ts      uint64 `json:"ts"`
	Genesis bool   `json:"genesis,omitempty"`
	Extra   int    `json:"extra,omitempty"` // snap: length of the transaction extra when it is not the full 64 bytes (0 = 64; -1 = empty)
}

type Read struct {
	Threshold uint64 `json:"threshold"`
	WithState bool   `json:"with_state"`
}

type Case struct {
	Mode  string `json:"mode"` // snap | direct | consensus
	Ops   []Op   `json:"ops"`
	Reads []Read `json:"reads,omitempty"`
}

const max64 = ^uint64(0)

var period = uint64(config.KernelNodeAcceptPeriodMinimum)

func init() {
	if uint64(config.KernelNodePledgePeriodMinimum) > period {
		period = uint64(config.KernelNodePledgePeriodMinimum)
	}
}

func keyOf(s string) crypto.Key {
	b, err := hex.DecodeString(s)
	if err != nil || len(b) != 32 {
		panic("bad key " + s)
	}
	var k crypto.Key
	copy(k[:], b)
	return k
}

func hashOf(s string) crypto.Hash {
	b, err := hex.DecodeString(s)
	if err != nil || len(b) != 32 {
		panic("bad hash " + s)
	}
	var h crypto.Hash
	copy(h[:], b)
	return h
}

// the keys an operation carries: the transaction extra is signer||payee cut to
// Extra bytes; missing bytes are zero (a short extra carries no keys at all)
func (o Op) extra() []byte {
	s, p := keyOf(o.Signer), keyOf(o.Payee)
	full := append(s[:], p[:]...)
	switch {
	case o.Extra == 0:
		return full
	case o.Extra < 0:
		return nil
	default:
		return full[:o.Extra]
	}
}

func (o Op) keys() (crypto.Key, crypto.Key) {
	var s, p crypto.Key
	ex := o.extra()
	if len(ex) >= 32 {
		copy(s[:], ex)
		copy(p[:], ex[32:])
	}
	return s, p
}

// ---- observations ---------------------------------------------------------------

type rec struct {
	signer, payee crypto.Key
	tx            crypto.Hash
	state         string
	ts            uint64
}

func stateCode(s string) uint64 {
	switch s {
	case common.NodeStatePledging:
		return 0
	case common.NodeStateAccepted:
		return 1
	case common.NodeStateRemoved:
		return 2
	case common.NodeStateCancelled:
		return 3
	}
	panic("unknown node state " + s)
}

func kindCode(k string) uint64 {
	switch k {
	case "pledge":
		return 0
	case "accept":
		return 1
	case "cancel":
		return 2
	case "remove":
		return 3
	}
	panic("unknown kind " + k)
}

func stateOfKind(k string) string {
	switch k {
	case "pledge":
		return common.NodeStatePledging
	case "accept":
		return common.NodeStateAccepted
	case "cancel":
		return common.NodeStateCancelled
	}
	return common.NodeStateRemoved
}

// readNodes returns ReadAllNodes projected; withState=false results are put in
// (timestamp, signer) order because the implementation's order among equal
// timestamps is the iteration order of a Go map.
func readNodes(store *storage.BadgerStore, threshold uint64, withState bool) (bool, []rec) {
	var out []rec
	pan, _ := vh.Catch(func() {
		for _, n := range store.ReadAllNodes(threshold, withState) {
			out = append(out, rec{n.Signer.PublicSpendKey, n.Payee.PublicSpendKey, n.Transaction, n.State, n.Timestamp})
		}
	})
	if pan {
		return true, nil
	}
	if !withState {
		sort.SliceStable(out, func(i, j int) bool {
			if out[i].ts != out[j].ts {
				return out[i].ts < out[j].ts
			}
			return bytes.Compare(out[i].signer[:], out[j].signer[:]) < 0
		})
	}
	return false, out
}

type tables struct {
	keys []crypto.Key
	kidx map[crypto.Key]int
	txs  []crypto.Hash
	tidx map[crypto.Hash]int
	tss  []uint64
	sidx map[uint64]int
}

func (t *tables) ts(v uint64) string {
	i, ok := t.sidx[v]
	if !ok {
		i = len(t.tss)
		t.sidx[v] = i
		t.tss = append(t.tss, v)
	}
	return fmt.Sprint(i)
}

func (t *tables) key(k crypto.Key) string {
	i, ok := t.kidx[k]
	if !ok {
		i = len(t.keys)
		t.kidx[k] = i
		t.keys = append(t.keys, k)
	}
	return fmt.Sprint(i)
}

func (t *tables) tx(h crypto.Hash) string {
	i, ok := t.tidx[h]
	if !ok {
		i = len(t.txs)
		t.tidx[h] = i
		t.txs = append(t.txs, h)
	}
	return fmt.Sprint(i)
}

const recxT = "recx"
const briefT = "briefx"

func (t *tables) recs(pan bool, rs []rec) string {
	if pan {
		return vh.Pan("(list " + recxT + ")")
	}
	el := make([]string, len(rs))
	for i, r := range rs {
		el[i] = fmt.Sprintf("R %s %s %d %s %s", t.key(r.signer), t.key(r.payee), stateCode(r.state), t.tx(r.tx), t.ts(r.ts))
	}
	return vh.Ok(vh.List(el, recxT))
}

func (t *tables) briefs(pan bool, rs []rec) string {
	if pan {
		return vh.Pan("(list " + briefT + ")")
	}
	el := make([]string, len(rs))
	for i, r := range rs {
		el[i] = fmt.Sprintf("B %s %d %s", t.key(r.signer), stateCode(r.state), t.ts(r.ts))
	}
	return vh.Ok(vh.List(el, briefT))
}

// ---- oracle: the lifecycle of the property text, in operation order --------------

type onode struct {
	signer, payee crypto.Key
	tx            crypto.Hash
	state         string
	ts            uint64
}

type oracle struct {
	c       *vh.Ctx
	cs      Case
	active  bool // the precondition (strictly increasing timestamps after the genesis prefix) has held so far
	genesis bool // still inside the genesis prefix
	anyOp   bool
	maxTs   uint64
	nodes   map[crypto.Key]*onode
	hist    []rec
	failed  bool
}

func newOracle(c *vh.Ctx, cs Case) *oracle {
	return &oracle{c: c, cs: cs, active: true, genesis: true, nodes: map[crypto.Key]*onode{}}
}

func (o *oracle) fail(sig, what string) {
	if !o.failed {
		o.c.Fail(sig, what, o.cs)
	}
	o.failed = true
}

func (o *oracle) pledging() *onode {
	for _, n := range o.nodes {
		if n.state == common.NodeStatePledging {
			return n
		}
	}
	return nil
}

// admit tells whether the operation respects the precondition of the property
// (C28 supplies it for consensus operations): the genesis nodes are loaded
// first with distinct signer keys, every later operation carries a timestamp
// above all earlier ones, and timestamps are real (non-zero, 12 h below 2^64).
func (o *oracle) admit(op Op, signer crypto.Key) {
	if !o.active {
		return
	}
	tsOK := op.Ts >= 1 && op.Ts <= max64-period-1
	if op.Genesis && op.Kind == "accept" {
		if !o.genesis || o.nodes[signer] != nil || !tsOK {
			o.active = false
		}
	} else {
		o.genesis = false
		if !tsOK || (o.anyOp && op.Ts <= o.maxTs) {
			o.active = false
		}
	}
	if !o.anyOp || op.Ts > o.maxTs {
		o.maxTs = op.Ts
	}
	o.anyOp = true
}

// expected: must the lifecycle record this operation?
func (o *oracle) expected(op Op, signer, payee crypto.Key, tx crypto.Hash) bool {
	if op.Genesis && op.Kind == "accept" {
		return true
	}
	p := o.pledging()
	switch op.Kind {
	case "pledge":
		if p != nil || o.nodes[signer] != nil {
			return false
		}
		for _, n := range o.nodes { // the pledge transaction itself must be new as well
			if n.tx == tx {
				return false
			}
		}
		return true
	case "accept", "cancel":
		return p != nil && p.signer == signer && p.payee == payee
	case "remove":
		n := o.nodes[signer]
		return p == nil && n != nil && n.state == common.NodeStateAccepted && n.payee == payee
	}
	panic(op.Kind)
}

func (o *oracle) observe(i int, op Op, signer, payee crypto.Key, tx crypto.Hash, decision int) {
	if o.active {
		want := o.expected(op, signer, payee, tx)
		switch {
		case decision == 0 && !want:
			o.fail("records-invalid-"+op.Kind, fmt.Sprintf("op %d (%s) was recorded although the lifecycle forbids it", i, op.Kind))
		case decision != 0 && want:
			o.fail("refuses-valid-"+op.Kind, fmt.Sprintf("op %d (%s) is a valid transition and was not recorded (decision %d)", i, op.Kind, decision))
		case decision == 2 && len(o.hist) > 0:
			o.fail("panic-"+op.Kind, fmt.Sprintf("op %d (%s) panicked on a non-empty history", i, op.Kind))
		}
	}
	if decision == 0 {
		o.nodes[signer] = &onode{signer, payee, tx, stateOfKind(op.Kind), op.Ts}
		o.hist = append(o.hist, rec{signer, payee, tx, stateOfKind(op.Kind), op.Ts})
	}
}

// the reported membership must be exactly one entry per node, its latest state
func (o *oracle) checkLatest(i int, pan bool, got []rec) {
	if !o.active {
		return
	}
	if pan {
		o.fail("read-panics", fmt.Sprintf("ReadAllNodes panicked after op %d", i))
		return
	}
	seen := map[crypto.Key]bool{}
	for _, r := range got {
		if seen[r.signer] {
			o.fail("signer-repeats", fmt.Sprintf("after op %d signer %s is reported twice", i, r.signer))
			return
		}
		seen[r.signer] = true
		n := o.nodes[r.signer]
		if n == nil || n.state != r.state || n.payee != r.payee || n.tx != r.tx || n.ts != r.ts {
			o.fail("latest-state-wrong", fmt.Sprintf("after op %d node %s is reported as %s@%d, not its latest recorded state", i, r.signer, r.state, r.ts))
			return
		}
	}
	if len(got) != len(o.nodes) {
		o.fail("latest-state-missing", fmt.Sprintf("after op %d %d nodes are reported, %d exist", i, len(got), len(o.nodes)))
	}
	np := 0
	for _, r := range got {
		if r.state == common.NodeStatePledging {
			np++
		}
	}
	if np > 1 {
		o.fail("two-pledging", fmt.Sprintf("after op %d %d nodes are pledging", i, np))
	}
}

// the durable history is the sequence of recorded operations.  The genesis
// prefix is stored in key order (timestamp, signer); everything after it in
// operation order.
func (o *oracle) checkHistory(pan bool, got []rec) {
	if !o.active {
		return
	}
	if pan {
		o.fail("read-panics", "ReadAllNodes(withState) panicked at the end")
		return
	}
	want := append([]rec{}, o.hist...)
	sort.SliceStable(want, func(i, j int) bool {
		if want[i].ts != want[j].ts {
			return want[i].ts < want[j].ts
		}
		return bytes.Compare(want[i].signer[:], want[j].signer[:]) < 0
	})
	if len(want) != len(got) {
		o.fail("history-length", fmt.Sprintf("history has %d records, %d operations were recorded", len(got), len(want)))
		return
	}
	for i := range want {
		if want[i] != got[i] {
			o.fail("history-differs", fmt.Sprintf("history record %d is not the recorded operation", i))
			return
		}
	}
}

// ---- running one case ---------------------------------------------------------------

// One Badger store serves every case of a run (opening one costs ~0.3 s); it
// is emptied between cases with the public RemoveGraphEntries("") and checked
// to be empty.  A replay runs on a store of its own.
var theStore *storage.BadgerStore
var theDir string
var served int // cases served by the current store

func openStore() (*storage.BadgerStore, func()) {
	if theStore != nil && served >= 40 {
		closeStore() // deleted keys stay as tombstones and slow every scan: start over on a new store
	}
	served++
	if theStore == nil {
		served = 1
		dir, err := os.MkdirTemp(tmpRoot(), "c27-")
		if err != nil {
			panic(err)
		}
		store, err := storage.NewBadgerStore(&config.Custom{}, dir)
		if err != nil {
			panic(err)
		}
		theStore, theDir = store, dir
	}
	return theStore, func() {
		if _, err := theStore.RemoveGraphEntries(""); err != nil {
			panic(err)
		}
		if n, err := theStore.RemoveGraphEntries(""); err != nil || n != 0 {
			panic(fmt.Sprintf("store not empty after wipe: %d %v", n, err))
		}
	}
}

// the store syncs every commit; a memory file system (when there is one) makes
// that free.  "" = the default temporary directory.
func tmpRoot() string {
	if os.Getenv("TMPDIR") == "" {
		if st, err := os.Stat("/dev/shm"); err == nil && st.IsDir() {
			if d, err := os.MkdirTemp("/dev/shm", "probe"); err == nil {
				os.RemoveAll(d)
				return "/dev/shm"
			}
		}
	}
	return ""
}

func closeStore() {
	if theStore != nil {
		theStore.Close()
		os.RemoveAll(theDir)
		theStore = nil
	}
}

var tiny = common.NewIntegerFromString("0.00000001")
var nodeID = crypto.Blake3Hash([]byte("c27-node"))

func outType(kind string) uint8 {
	switch kind {
	case "pledge":
		return common.OutputTypeNodePledge
	case "accept":
		return common.OutputTypeNodeAccept
	case "cancel":
		return common.OutputTypeNodeCancel
	}
	return common.OutputTypeNodeRemove
}

func snapshotFor(ver *common.VersionedTransaction, ts, topo uint64) *common.SnapshotWithTopologicalOrder {
	s := &common.SnapshotWithTopologicalOrder{
		Snapshot: &common.Snapshot{
			Version:      common.SnapshotVersionCommonEncoding,
			NodeId:       nodeID,
			RoundNumber:  0,
			Timestamp:    ts,
			Transactions: []crypto.Hash{ver.PayloadHash()},
		},
		TopologicalOrder: topo,
	}
	s.Hash = s.PayloadHash()
	return s
}

// genesisPrefix: the leading genesis accepts
func genesisPrefix(ops []Op) int {
	n := 0
	for n < len(ops) && ops[n].Genesis && ops[n].Kind == "accept" {
		n++
	}
	return n
}

// loadGenesis builds one genesis transaction per genesis node (the first also
// carries the pool of script outputs the later operations spend) and loads
// them with the public LoadGenesis.  Returns the transaction hashes.
func loadGenesis(store *storage.BadgerStore, g []Op, pool int) ([]crypto.Hash, *common.VersionedTransaction) {
	var txs []*common.VersionedTransaction
	var snaps []*common.SnapshotWithTopologicalOrder
	var hashes []crypto.Hash
	for i, op := range g {
		tx := common.NewTransactionV5(common.XINAssetId)
		gen := append([]byte("c27-genesis"), byte(i))
		tx.Inputs = []*common.Input{{Genesis: gen}}
		tx.Outputs = []*common.Output{{Type: common.OutputTypeNodeAccept, Amount: tiny}}
		if i == 0 {
			for j := 0; j < pool; j++ {
				tx.Outputs = append(tx.Outputs, &common.Output{Type: common.OutputTypeScript, Amount: tiny})
			}
		}
		tx.Extra = op.extra()
		ver := tx.AsVersioned()
		txs = append(txs, ver)
		hashes = append(hashes, ver.PayloadHash())
		snaps = append(snaps, snapshotFor(ver, op.Ts, uint64(i)))
	}
	rounds := []*common.Round{{Hash: nodeID, NodeId: nodeID, Number: 0, References: &common.RoundLink{}}}
	if err := store.LoadGenesis(rounds, snaps, txs); err != nil {
		panic(err)
	}
	return hashes, txs[len(txs)-1]
}

func decisionOf(pan bool, err error) int {
	if pan {
		return 2
	}
	if err != nil {
		return 1
	}
	return 0
}

func run(c *vh.Ctx, cs Case) {
	if cs.Mode == "consensus" {
		runConsensus(c, cs)
		return
	}
	store, done := openStore()
	defer done()

	t := &tables{kidx: map[crypto.Key]int{}, tidx: map[crypto.Hash]int{}, sidx: map[uint64]int{}}
	orc := newOracle(c, cs)
	var opTerms, obsTerms []string
	recorded, refused, panics := 0, 0, 0
	topo := uint64(0)

	emit := func(i int, op Op, signer, payee crypto.Key, tx crypto.Hash, decision int, withRead bool) {
		opTerms = append(opTerms, fmt.Sprintf("O %d %s %s %s %s %s", kindCode(op.Kind), t.key(signer), t.key(payee), t.tx(tx),
			t.ts(op.Ts), vh.Bool(op.Genesis && op.Kind == "accept")))
		orc.admit(op, signer)
		orc.observe(i, op, signer, payee, tx, decision)
		lat := vh.None("(res (list " + briefT + "))")
		if withRead {
			pan, got := readNodes(store, max64, false)
			if decision == 0 { // a refused operation leaves the store as it was: observed by the oracle only
				lat = vh.Some(t.briefs(pan, got))
			}
			orc.checkLatest(i, pan, got)
		}
		obsTerms = append(obsTerms, fmt.Sprintf("S %d %s", decision, lat))
		tag := []string{"ok", "err", "panic"}[decision]
		if !(op.Genesis && op.Kind == "accept") {
			c.Count("op:" + op.Kind + ":" + tag)
			switch decision {
			case 0:
				recorded++
			case 1:
				refused++
			default:
				panics++
			}
		}
	}

	switch cs.Mode {
	case "snap":
		ng := genesisPrefix(cs.Ops)
		if ng == 0 {
			panic("snap case without genesis node")
		}
		hashes, _ := loadGenesis(store, cs.Ops[:ng], len(cs.Ops)-ng)
		topo = uint64(ng)
		for i, op := range cs.Ops[:ng] {
			s, p := op.keys()
			emit(i, op, s, p, hashes[i], 0, i == ng-1)
		}
		for j, op := range cs.Ops[ng:] {
			i := ng + j
			tx := common.NewTransactionV5(common.XINAssetId)
			tx.Inputs = []*common.Input{{Hash: hashes[0], Index: uint(1 + j)}}
			tx.Outputs = []*common.Output{{Type: outType(op.Kind), Amount: tiny}}
			tx.Extra = op.extra()
			ver := tx.AsVersioned()
			h := ver.PayloadHash()
			if err := store.LockUTXOs(ver.Inputs, h, false); err != nil {
				panic(err)
			}
			if err := store.WriteTransaction(ver); err != nil {
				panic(err)
			}
			var err error
			pan, _ := vh.Catch(func() { err = store.WriteSnapshot(snapshotFor(ver, op.Ts, topo), nil) })
			d := decisionOf(pan, err)
			if d == 0 {
				topo++
			}
			s, p := op.keys()
			emit(i, op, s, p, h, d, true)
		}
	case "direct":
		for i, op := range cs.Ops {
			s, p := keyOf(op.Signer), keyOf(op.Payee)
			h := hashOf(op.Tx)
			var err error
			pan, _ := vh.Catch(func() { err = store.VerifWriteNode(op.Kind, s, p, h, op.Ts, op.Genesis) })
			emit(i, op, s, p, h, decisionOf(pan, err), true)
		}
	default:
		panic("mode " + cs.Mode)
	}

	pan, hist := readNodes(store, max64, true)
	orc.checkHistory(pan, hist)
	final := t.recs(pan, hist)
	var readTerms []string
	for _, rd := range cs.Reads {
		p, got := readNodes(store, rd.Threshold, rd.WithState)
		readTerms = append(readTerms, fmt.Sprintf("Q %s %s %s", vh.NU(rd.Threshold), vh.Bool(rd.WithState), t.recs(p, got)))
	}
	keyTerms := make([]string, len(t.keys))
	for i, k := range t.keys {
		keyTerms[i] = vh.BytesAsN(k[:])
	}
	txTerms := make([]string, len(t.txs))
	for i := range t.txs {
		// the model only compares transaction hashes for equality: they are
		// renamed injectively to 1,2,.. (keys keep their real values: their order is the store's key order)
		txTerms[i] = vh.NU(uint64(i + 1))
	}
	tsTerms := make([]string, len(t.tss))
	for i, v := range t.tss {
		tsTerms[i] = vh.NU(v)
	}
	term := vh.App("CHist", vh.List(keyTerms, "N"), vh.List(txTerms, "N"), vh.List(tsTerms, "N"),
		vh.List(opTerms, "opx"), vh.List(obsTerms, "stepobs"), final, vh.List(readTerms, "readx"))

	var key strings.Builder
	key.WriteString(cs.Mode)
	for _, op := range cs.Ops {
		fmt.Fprintf(&key, "|%s,%s,%s,%s,%d,%v,%d", op.Kind, op.Signer, op.Payee, op.Tx, op.Ts, op.Genesis, op.Extra)
	}
	kind := cs.Mode
	if !orc.active {
		kind += "-outside-precondition"
	}
	if panics > 0 {
		kind += "-panic"
	}
	c.Case(kind, key.String(), recorded > 0 && refused > 0, cs, term)
}

// runConsensus: the guard that supplies the precondition on real code.  A
// node operation only reaches finalization as the sole transaction of a
// consensus snapshot; WriteConsensusSnapshot refuses (panics on) a consensus
// snapshot whose timestamp is not above the previous consensus snapshot's.
// Ops = genesis prefix, then one operation whose timestamp is tested.
func runConsensus(c *vh.Ctx, cs Case) {
	store, done := openStore()
	defer done()
	ng := genesisPrefix(cs.Ops)
	if ng == 0 || len(cs.Ops) != ng+1 {
		panic("consensus case shape")
	}
	hashes, _ := loadGenesis(store, cs.Ops[:ng], 1)
	last := cs.Ops[ng-1]
	op := cs.Ops[ng]
	tx := common.NewTransactionV5(common.XINAssetId)
	tx.Inputs = []*common.Input{{Hash: hashes[0], Index: 1}}
	tx.Outputs = []*common.Output{{Type: outType(op.Kind), Amount: tiny}}
	tx.Extra = op.extra()
	tx.References = []crypto.Hash{hashes[ng-1]}
	ver := tx.AsVersioned()
	snap := snapshotFor(ver, op.Ts, uint64(ng))
	var err error
	pan, _ := vh.Catch(func() { err = store.WriteConsensusSnapshot(snap.Snapshot, ver, nil) })
	c.Case("consensus-order-guard", fmt.Sprintf("consensus|%d|%d|%s", last.Ts, op.Ts, op.Kind), !pan, cs, "")
	if op.Ts <= last.Ts && !pan {
		c.Fail("consensus-order-unguarded", fmt.Sprintf("a consensus snapshot stamped %d was accepted after one stamped %d", op.Ts, last.Ts), cs)
	}
	if op.Ts > last.Ts && (pan || err != nil) {
		c.Fail("consensus-order-refuses-valid", fmt.Sprintf("a consensus snapshot stamped %d was refused after one stamped %d", op.Ts, last.Ts), cs)
	}
}

// ---- generators -------------------------------------------------------------------------

func hx(b []byte) string { return hex.EncodeToString(b) }

func newKey(r *vh.Rand) string {
	switch r.Intn(8) {
	case 0, 1, 2, 3:
		return hx(r.Bytes(32))
	case 4:
		b := make([]byte, 32)
		b[31] = byte(r.Range(1, 255))
		return hx(b)
	case 5:
		b := make([]byte, 32)
		b[0] = byte(r.Range(1, 255))
		return hx(b)
	default:
		b := make([]byte, 32)
		b[r.Intn(32)] = byte(r.Range(1, 255))
		b[r.Intn(32)] = byte(r.Range(1, 255))
		return hx(b)
	}
}

type simNode struct {
	signer, payee, tx string
	state             string
}

// genHistory draws an operation sequence with a small lifecycle simulator so
// that most operations are valid transitions; the rest are the invalid
// variants (wrong node, wrong key, wrong state).  badTs additionally perturbs
// timestamps (equal, decreasing, zero, near 2^64): those sequences leave the
// precondition and are compared with the model only from there on.
func genHistory(r *vh.Rand, mode string, n int, badTs bool) Case {
	cs := Case{Mode: mode}
	var nodes []*simNode
	var pledging *simNode
	usedTx := []string{}
	newTx := func() string {
		if mode == "snap" {
			return ""
		}
		h := hx(r.Bytes(32))
		usedTx = append(usedTx, h)
		return h
	}
	ts := uint64(1700000000000000000) + uint64(r.Intn(1000000))
	if r.Chance(1, 5) {
		ts = uint64(r.Range(1, 50))
	}
	ng := r.Range(1, 4)
	if mode == "direct" {
		ng = r.Intn(4)
	}
	for i := 0; i < ng; i++ {
		nd := &simNode{signer: newKey(r), payee: newKey(r), state: "A"}
		nd.tx = newTx()
		gts := ts
		if r.Chance(1, 4) {
			gts = ts - uint64(r.Intn(int(min64(ts, 20))))
		}
		if badTs && r.Chance(1, 12) {
			gts = 0
		}
		if badTs && r.Chance(1, 8) && len(nodes) > 0 {
			nd.signer = nodes[0].signer // repeated genesis signer
		}
		nodes = append(nodes, nd)
		cs.Ops = append(cs.Ops, Op{Kind: "accept", Signer: nd.signer, Payee: nd.payee, Tx: nd.tx, Ts: gts, Genesis: true})
	}
	pick := func(st string) *simNode {
		var c []*simNode
		for _, nd := range nodes {
			if strings.Contains(st, nd.state) {
				c = append(c, nd)
			}
		}
		if len(c) == 0 {
			return nil
		}
		return c[r.Intn(len(c))]
	}
	for i := 0; i < n; i++ {
		step := uint64(1 + r.Intn(1000000000))
		if r.Chance(1, 4) {
			step = 1
		}
		ts += step
		op := Op{Ts: ts}
		valid := r.Chance(7, 10)
		switch {
		case valid && pledging != nil:
			op.Kind = "accept"
			if r.Chance(1, 3) {
				op.Kind = "cancel"
			}
			op.Signer, op.Payee = pledging.signer, pledging.payee
			if op.Kind == "accept" {
				pledging.state = "A"
			} else {
				pledging.state = "C"
			}
			pledging = nil
		case valid && (r.Chance(3, 5) || pick("A") == nil):
			nd := &simNode{signer: newKey(r), payee: newKey(r), state: "P"}
			if r.Chance(1, 10) {
				nd.payee = nd.signer
			}
			op.Kind, op.Signer, op.Payee = "pledge", nd.signer, nd.payee
			nodes = append(nodes, nd)
			pledging = nd
		case valid:
			nd := pick("A")
			op.Kind, op.Signer, op.Payee = "remove", nd.signer, nd.payee
			nd.state = "R"
		default:
			// invalid variants
			kinds := []string{"pledge", "accept", "cancel", "remove"}
			op.Kind = kinds[r.Intn(4)]
			var nd *simNode
			switch r.Intn(6) {
			case 0:
				nd = pick("P")
			case 1:
				nd = pick("A")
			case 2:
				nd = pick("RC")
			case 3:
				nd = pick("PARC")
			}
			if nd != nil {
				op.Signer, op.Payee = nd.signer, nd.payee
				switch r.Intn(5) {
				case 0:
					op.Payee = newKey(r)
				case 1:
					op.Signer = newKey(r)
				case 2:
					if o := pick("PARC"); o != nil {
						op.Payee = o.payee
					}
				}
			} else {
				op.Signer, op.Payee = newKey(r), newKey(r)
			}
			// the operation may after all be valid; keep the simulator in step
			switch op.Kind {
			case "pledge":
				known := false
				for _, x := range nodes {
					known = known || x.signer == op.Signer
				}
				if pledging == nil && !known {
					x := &simNode{signer: op.Signer, payee: op.Payee, state: "P"}
					nodes = append(nodes, x)
					pledging = x
				}
			case "accept", "cancel":
				if pledging != nil && pledging.signer == op.Signer && pledging.payee == op.Payee {
					pledging.state = map[string]string{"accept": "A", "cancel": "C"}[op.Kind]
					pledging = nil
				}
			case "remove":
				for _, x := range nodes {
					if pledging == nil && x.signer == op.Signer && x.payee == op.Payee && x.state == "A" {
						x.state = "R"
					}
				}
			}
		}
		op.Tx = newTx()
		if mode == "direct" && op.Kind == "pledge" && len(usedTx) > 1 && r.Chance(1, 12) {
			op.Tx = usedTx[r.Intn(len(usedTx)-1)] // a pledge re-using a recorded transaction hash
		}
		if mode == "direct" && op.Kind == "accept" && badTs && r.Chance(1, 10) {
			op.Genesis = true // a genesis accept in the middle of the history
		}
		if badTs && r.Chance(1, 5) {
			switch r.Intn(7) {
			case 0:
				op.Ts = ts - step // equal to the previous
				ts = op.Ts
			case 1:
				op.Ts = ts - step - uint64(r.Intn(5))
			case 2:
				op.Ts = 0
			case 3:
				op.Ts = max64 - uint64(r.Intn(3))
			case 4:
				op.Ts = max64 - period + uint64(r.Intn(3)) - 1
			case 5:
				op.Ts = ts + 2*period // far ahead: later operations fall below it
			default:
				op.Ts = uint64(r.Range(1, 100))
			}
		}
		cs.Ops = append(cs.Ops, op)
	}
	nr := r.Intn(3)
	for i := 0; i < nr; i++ {
		th := cs.Ops[r.Intn(len(cs.Ops))].Ts
		switch r.Intn(4) {
		case 0:
			th += uint64(r.Intn(3)) - 1
		case 1:
			th = max64
		case 2:
			th = 0
		}
		cs.Reads = append(cs.Reads, Read{Threshold: th, WithState: r.Bool()})
	}
	return cs
}

func min64(a, b uint64) uint64 {
	if a < b {
		return a
	}
	return b
}

func k(b byte) string {
	x := make([]byte, 32)
	x[31] = b
	return hx(x)
}

func th(b byte) string {
	x := make([]byte, 32)
	x[0] = 0xee
	x[31] = b
	return hx(x)
}

func corpus() []Case {
	T := uint64(1700000000000000000)
	g := func(s, p byte, ts uint64) Op {
		return Op{Kind: "accept", Signer: k(s), Payee: k(p), Tx: th(s), Ts: ts, Genesis: true}
	}
	o := func(kind string, s, p, tx byte, ts uint64) Op {
		return Op{Kind: kind, Signer: k(s), Payee: k(p), Tx: th(tx), Ts: ts}
	}
	var cs []Case
	for _, mode := range []string{"snap", "direct"} {
		cs = append(cs,
			// the full lifecycle of two nodes
			Case{Mode: mode, Ops: []Op{g(1, 2, T), g(3, 4, T), o("pledge", 5, 6, 10, T+1), o("accept", 5, 6, 11, T+2),
				o("remove", 1, 2, 12, T+3), o("pledge", 7, 8, 13, T+4), o("cancel", 7, 8, 14, T+5), o("remove", 5, 6, 15, T+6)},
				Reads: []Read{{T + 2, false}, {T + 2, true}, {0, true}}},
			// every single rejection of the transition tests, and their neighbours
			Case{Mode: mode, Ops: []Op{g(1, 2, T), o("cancel", 1, 2, 10, T+1), o("accept", 1, 2, 11, T+2), o("pledge", 1, 9, 12, T+3),
				o("pledge", 3, 4, 13, T+4), o("pledge", 5, 6, 14, T+5), o("accept", 5, 6, 15, T+6), o("cancel", 3, 9, 16, T+7),
				o("accept", 9, 4, 17, T+8), o("remove", 3, 4, 18, T+9), o("remove", 1, 2, 19, T+10), o("accept", 3, 4, 20, T+11),
				o("remove", 1, 9, 21, T+12), o("remove", 9, 2, 22, T+13), o("remove", 1, 2, 23, T+14), o("remove", 1, 2, 24, T+15),
				o("pledge", 1, 2, 25, T+16), o("accept", 3, 4, 26, T+17), o("cancel", 3, 4, 27, T+18)}},
			// without increasing timestamps: an accept stamped before its pledge, then accepted again; equal stamps replace the record
			Case{Mode: mode, Ops: []Op{g(1, 2, 10), o("pledge", 3, 4, 10, 100), o("accept", 3, 4, 11, 50), o("accept", 3, 4, 12, 60),
				o("cancel", 3, 4, 13, 100), o("pledge", 5, 6, 14, 101)}, Reads: []Read{{60, false}, {99, true}}},
			// timestamps at the ends of uint64
			Case{Mode: mode, Ops: []Op{g(1, 2, 5), o("pledge", 3, 4, 10, max64), o("accept", 3, 4, 11, max64-period), o("accept", 3, 4, 12, max64-period-1),
				o("remove", 1, 2, 13, max64)}},
			// records above the threshold are invisible: accept 12 h + 1 before its pledge panics on the empty list
			Case{Mode: mode, Ops: []Op{g(1, 2, T), o("accept", 1, 2, 10, T-period-1), o("accept", 1, 2, 11, T-period), o("pledge", 3, 4, 12, T-period-1),
				o("pledge", 5, 6, 13, T+1)}},
		)
	}
	cs = append(cs,
		Case{Mode: "direct", Ops: []Op{o("accept", 1, 2, 10, 5)}},
		Case{Mode: "direct", Ops: []Op{o("cancel", 1, 2, 10, 5), o("remove", 1, 2, 11, 6), o("pledge", 1, 2, 12, 7), o("accept", 1, 2, 13, 8)}},
		Case{Mode: "direct", Ops: []Op{o("pledge", 1, 2, 10, 0), o("pledge", 3, 4, 11, 1)}},          // timestamp 0 poisons every later read
		Case{Mode: "direct", Ops: []Op{g(1, 2, 7), g(3, 4, 7), g(2, 9, 7), o("pledge", 5, 6, 1, 8)}}, // pledge re-using a recorded transaction hash
		Case{Mode: "direct", Ops: []Op{g(1, 2, 7), o("pledge", 3, 4, 10, 8), g(3, 5, 9), o("accept", 3, 4, 11, 10), o("accept", 3, 5, 12, 11)}},
		// short transaction extras carry zero keys
		Case{Mode: "snap", Ops: []Op{g(1, 2, 7), {Kind: "pledge", Signer: k(3), Payee: k(4), Ts: 8, Extra: 32}, {Kind: "accept", Signer: k(3), Payee: k(0), Ts: 9},
			{Kind: "pledge", Signer: k(5), Payee: k(6), Ts: 10, Extra: -1}, {Kind: "cancel", Signer: k(5), Payee: k(6), Ts: 11, Extra: 31}}},
	)
	for _, d := range []int64{-5, -1, 0, 1, 5} {
		for _, kind := range []string{"pledge", "accept", "remove", "cancel"} {
			cs = append(cs, Case{Mode: "consensus", Ops: []Op{g(1, 2, T), g(3, 4, T+7), o(kind, 5, 6, 10, uint64(int64(T+7)+d))}})
		}
	}
	return cs
}

func main() {
	c := vh.Start("C27")
	c.Rep.Rule = "corpus (both lifecycles in full, every rejection of the transition tests with its neighbours, non-increasing and extreme " +
		"timestamps, empty history, timestamp 0, transaction-hash reuse, short extras, consensus order guard), then random operation " +
		"sequences (6-40 ops after 0-4 genesis nodes) drawn with a lifecycle simulator: 70% valid transitions, 30% invalid variants " +
		"(wrong node / key / state); one third of the sequences also perturb timestamps (equal, decreasing, 0, near 2^64, far ahead). " +
		"Half run as node-typed transactions through LoadGenesis/WriteTransaction/WriteSnapshot, half through the write functions. " +
		"Non-trivial = at least one operation recorded and one refused after the genesis nodes; distinct by the operation sequence."
	if c.Replay != "" {
		var cs Case
		c.ReplayCase(&cs)
		run(c, cs)
		closeStore()
		c.Finish()
		return
	}
	for _, cs := range corpus() {
		run(c, cs)
	}
	n := c.Scale(110, 3000)
	for i := 0; i < n; i++ {
		mode := "snap"
		if i%2 == 1 {
			mode = "direct"
		}
		r := c.Rng
		cs := genHistory(r, mode, r.Range(6, 40), i%3 == 2)
		run(c, cs)
	}
	// the storage-level guard behind the precondition, on random offsets
	m := c.Scale(10, 200)
	for i := 0; i < m; i++ {
		r := c.Rng
		T := uint64(1700000000000000000) + uint64(r.Intn(1000))
		d := int64(r.Range(-3, 3))
		kind := []string{"pledge", "accept", "remove", "cancel"}[r.Intn(4)]
		run(c, Case{Mode: "consensus", Ops: []Op{
			{Kind: "accept", Signer: newKey(r), Payee: newKey(r), Ts: T, Genesis: true},
			{Kind: kind, Signer: newKey(r), Payee: newKey(r), Ts: uint64(int64(T) + d)}}})
	}
	closeStore()
	c.Finish()
}
