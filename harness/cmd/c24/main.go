// C24 harness: installs random sets of in-flight snapshot proposals (local
// aggregators with commitment/response counts, verifier entries, overlapping
// transactions in random finalization / body states) on a real kernel node with
// a real Badger store, runs one retire path of kernel/cosi.go (retry, abandon,
// expiry at `now`, round reset with an owned set) or requeueTransactions, reads
// the maps and the cache back and (a) sends the observation to the Coq model
// (coq/Model/Retire.v), (b) checks the property text directly: every
// transaction of a retired local proposal that is unfinalized and has a body is
// returned by a retrieval afterwards (or, reset only, is owned); owned
// transactions get no new queue entry; a complete or not yet expired aggregator
// survives expiry; verifier entries of other proposals survive.
// "self" cases hand a local batch (CosiActionSelfEmpty) to the real cosiHook of the
// node's own chain in the situations in which the kernel rejects or defers the
// announcement (a member finalized by another snapshot, chain not broadcast yet,
// node catching up, pledging chain without state): the proposal is retired before
// an aggregator exists, and the same no-loss oracle applies to its members.
package main

import (
	"bytes"
	"fmt"
	"math/big"
	"os"
	"path/filepath"
	"sort"
	"strings"

	"github.com/MixinNetwork/mixin/common"
	"github.com/MixinNetwork/mixin/config"
	"github.com/MixinNetwork/mixin/crypto"
	"github.com/MixinNetwork/mixin/kernel"
	"github.com/MixinNetwork/mixin/storage"
	"verifharness/vh"
)

// body states of a transaction in the cache
const (
	cacheNone    = 0
	cacheStored  = 1 // body stored, never queued
	cachePopped  = 2 // queued and already retrieved: body present, no queue entry (the usual state of a proposed tx)
	cachePending = 3 // queued, still pending
	cacheCorrupt = 4 // undecodable body
)

type Tx struct {
	Persist bool `json:"persist,omitempty"` // body in the persistent store
	Final   bool `json:"final,omitempty"`   // finalization record
	Cache   int  `json:"cache,omitempty"`
}

type Prop struct {
	Ts     uint64 `json:"ts"`
	Txs    []int  `json:"txs"`
	Commit int    `json:"commit,omitempty"`
	Resp   int    `json:"resp,omitempty"`
	Agg    bool   `json:"agg,omitempty"` // local proposal: has an aggregator
}

type VEntry struct {
	Tx  int `json:"tx"`  // >= 0: key is that transaction's hash
	Sn  int `json:"sn"`  // else: key is that proposal's snapshot hash
	Obj int `json:"obj"` // verifier object (proposal index)
}

type Case struct {
	Salt  uint64   `json:"salt"`
	Txs   []Tx     `json:"txs"`
	Props []Prop   `json:"props"`
	Vers  []VEntry `json:"vers"`
	Op    string   `json:"op"` // retry abandon expire reset requeue | kqueue kstore (kernel/node.go wrappers) | self (Idx = situation)
	Idx   int      `json:"idx,omitempty"`
	Now   uint64   `json:"now,omitempty"`
	List  []int    `json:"list,omitempty"` // owned (reset) / hashes (requeue)
}

var node *kernel.Node
var store *storage.BadgerStore
var gap = uint64(config.SnapshotRoundGap)

func setup() func() {
	repo := os.Getenv("VERIF_REPO")
	if repo == "" {
		repo = "/repo"
	}
	dir, err := os.MkdirTemp("", "verif-c24-")
	if err != nil {
		panic(err)
	}
	node, store, err = kernel.VerifC24SetupNode(dir, filepath.Join(repo, "config", "genesis.json"))
	if err != nil {
		panic(err)
	}
	if !node.VerifC24PrepareSelf() {
		panic("the node's own chain is not usable for self announcements")
	}
	return func() { store.Close(); os.RemoveAll(dir) }
}

type world struct {
	txs    [][2]*common.VersionedTransaction // [persistent body, cache body]
	txh    []crypto.Hash
	snh    []crypto.Hash
	rank   map[crypto.Hash]int
	bodyID map[string]int
}

func build(cs Case) *world {
	w := &world{rank: map[crypto.Hash]int{}, bodyID: map[string]int{}}
	for i := range cs.Txs {
		var pair [2]*common.VersionedTransaction
		for v := 0; v < 2; v++ {
			tx := common.NewTransactionV5(common.XINAssetId)
			tx.Extra = []byte(fmt.Sprintf("verif-c24-%d-%d", cs.Salt, i))
			ver := tx.AsVersioned()
			if v > 0 {
				sig := crypto.Signature{byte(v), byte(i)}
				ver.SignaturesMap = []map[uint16]*crypto.Signature{{0: &sig}}
			}
			pair[v] = ver
			w.bodyID[string(ver.Marshal())] = 1 + 2*i + v
		}
		w.txs = append(w.txs, pair)
		w.txh = append(w.txh, pair[0].PayloadHash())
	}
	for i := range cs.Props {
		w.snh = append(w.snh, crypto.Blake3Hash([]byte(fmt.Sprintf("verif-c24-snapshot-%d-%d", cs.Salt, i))))
	}
	all := append(append([]crypto.Hash{}, w.txh...), w.snh...)
	sort.Slice(all, func(i, j int) bool { return bytes.Compare(all[i][:], all[j][:]) < 0 })
	for i, h := range all {
		w.rank[h] = i + 1
	}
	return w
}

func (w *world) hN(h crypto.Hash) string { return vh.NU(uint64(w.rank[h])) }

func (w *world) hashes(idx []int) []crypto.Hash {
	out := make([]crypto.Hash, len(idx))
	for i, k := range idx {
		out[i] = w.txh[k]
	}
	return out
}

func (w *world) hList(hs []crypto.Hash) string {
	el := make([]string, len(hs))
	for i, h := range hs {
		el[i] = w.hN(h)
	}
	return vh.List(el, "N")
}

func must(err error) {
	if err != nil {
		panic(err)
	}
}

func (w *world) dumpTerms(st *storage.VerifC23State, sortedQueue bool) (string, string, string) {
	q := make([]string, len(st.Queue))
	if sortedQueue {
		rs := make([]int, len(st.Queue))
		for i, e := range st.Queue {
			rs[i] = w.rank[e.Hash]
		}
		sort.Ints(rs)
		for i, r := range rs {
			q[i] = vh.NU(uint64(r))
		}
	} else {
		for i, e := range st.Queue {
			q[i] = "(" + vh.NU(e.Ts) + ", " + w.hN(e.Hash) + ")"
		}
	}
	o := make([]string, len(st.Order))
	for i, h := range st.Order {
		o[i] = w.hN(h)
	}
	p := make([]string, len(st.Payload))
	for i, e := range st.Payload {
		p[i] = "(" + w.hN(e.Hash) + ", " + vh.NU(uint64(w.bodyID[string(e.Value)])) + ")"
	}
	qt := "(N*N)"
	if sortedQueue {
		qt = "N"
	}
	return vh.List(q, qt), vh.List(o, "N"), vh.List(p, "(N*N)")
}

func snapTerm(w *world, cs Case, i int) string {
	return vh.App("mkSnap", w.hN(w.snh[i]), vh.NU(cs.Props[i].Ts), w.hList(w.hashes(cs.Props[i].Txs)))
}

func canon(cs Case) string {
	var sb strings.Builder
	fmt.Fprintf(&sb, "%s %d %d %v|", cs.Op, cs.Idx, cs.Now, cs.List)
	for _, t := range cs.Txs {
		fmt.Fprintf(&sb, "%v%v%d,", t.Persist, t.Final, t.Cache)
	}
	for _, p := range cs.Props {
		fmt.Fprintf(&sb, "|%d%v%d.%d%v", p.Ts, p.Txs, p.Commit, p.Resp, p.Agg)
	}
	fmt.Fprintf(&sb, "|%v", cs.Vers)
	return sb.String()
}

func run(c *vh.Ctx, cs Case) {
	w := build(cs)
	must(store.VerifC23Clear())
	// persistent store view
	var ptx, pfin []string
	for i, t := range cs.Txs {
		if t.Persist {
			must(store.VerifC23PutTransaction(w.txs[i][0]))
		}
		if t.Final {
			must(store.VerifC23PutFinalization(w.txh[i], crypto.Blake3Hash([]byte("verif-c24-final"))))
		}
	}
	{ // in hash order, as the model's association lists are
		idx := make([]int, len(cs.Txs))
		for i := range idx {
			idx[i] = i
		}
		sort.Slice(idx, func(a, b int) bool { return w.rank[w.txh[idx[a]]] < w.rank[w.txh[idx[b]]] })
		for _, i := range idx {
			if cs.Txs[i].Persist {
				ptx = append(ptx, "("+w.hN(w.txh[i])+", "+vh.NU(uint64(1+2*i))+")")
			}
			if cs.Txs[i].Final {
				pfin = append(pfin, w.hN(w.txh[i]))
			}
		}
	}
	// cache content through the real API
	for i, t := range cs.Txs {
		if t.Cache == cachePopped {
			must(store.CacheQueueTransaction(w.txs[i][1]))
		}
	}
	_, err := store.CacheRetrieveTransactions(1000)
	must(err)
	for i, t := range cs.Txs {
		switch t.Cache {
		case cachePending:
			must(store.CacheQueueTransaction(w.txs[i][1]))
		case cacheStored:
			must(store.CacheStoreTransaction(w.txs[i][1]))
		case cacheCorrupt:
			must(store.VerifC23RawPayload(w.txh[i], []byte{0xff}))
		}
	}
	before, err := store.VerifC23Dump()
	must(err)
	cq, co, cp := w.dumpTerms(before, false)

	// chain state
	props := make([]kernel.VerifC24Proposal, len(cs.Props))
	var aggIdx []int
	var aggTerms []string
	base := make([]int, len(cs.Props))
	for i, p := range cs.Props {
		props[i] = kernel.VerifC24Proposal{Hash: w.snh[i], Timestamp: p.Ts, Transactions: w.hashes(p.Txs), Commitments: p.Commit, Responses: p.Resp}
		if p.Agg {
			aggIdx = append(aggIdx, i)
			base[i] = node.VerifC24Threshold(p.Ts)
			aggTerms = append(aggTerms, vh.App("mkAgg", snapTerm(w, cs, i), vh.ZI(int64(p.Commit)), vh.ZI(int64(p.Resp)), vh.ZI(int64(base[i]))))
		}
	}
	vmap := map[crypto.Hash]int{}
	var vkeys []crypto.Hash
	var vidx []int
	for _, e := range cs.Vers {
		k := w.snh[0]
		if e.Tx >= 0 {
			k = w.txh[e.Tx]
		} else {
			k = w.snh[e.Sn]
		}
		if _, dup := vmap[k]; !dup {
			vkeys = append(vkeys, k)
		}
		vmap[k] = e.Obj
	}
	for _, k := range vkeys {
		vidx = append(vidx, vmap[k])
	}
	chain := kernel.VerifC24NewChain(node, props, aggIdx, vkeys, vidx)
	k0, i0 := chain.Verifiers()
	vsTerms := make([]string, len(k0))
	for i := range k0 {
		vsTerms[i] = "(" + w.hN(k0[i]) + ", " + vh.NU(uint64(i0[i])) + ")"
	}

	// the retire path
	selfLive := false
	var opTerm string
	retired := map[int]bool{}
	switch cs.Op {
	case "retry":
		chain.Retry(cs.Idx)
		opTerm = vh.App("RRetry", snapTerm(w, cs, cs.Idx))
		retired[cs.Idx] = cs.Props[cs.Idx].Agg
	case "abandon":
		chain.Abandon(cs.Idx)
		opTerm = vh.App("RAbandon", snapTerm(w, cs, cs.Idx))
	case "expire":
		chain.Expire(cs.Now)
		opTerm = vh.App("RExpire", vh.NU(cs.Now))
		for _, i := range aggIdx {
			p := cs.Props[i]
			due := new(big.Int).Add(new(big.Int).SetUint64(p.Ts), new(big.Int).SetUint64(gap))
			elapsed := new(big.Int).SetUint64(cs.Now).Cmp(due) >= 0
			complete := p.Commit >= base[i] && p.Resp == p.Commit
			if elapsed && !complete {
				retired[i] = true
			}
		}
	case "reset":
		chain.Reset(w.hashes(cs.List))
		opTerm = vh.App("RReset", w.hList(w.hashes(cs.List)))
		for _, i := range aggIdx {
			retired[i] = true
		}
	case "requeue":
		node.VerifC24Requeue(w.hashes(cs.List))
		opTerm = vh.App("RRequeue", w.hList(w.hashes(cs.List)))
	case "self":
		// a local batch handed to the real cosiHook as CosiActionSelfEmpty; in each of these
		// situations the kernel rejects or defers the announcement, which retires the proposal
		nagg, nver, err := node.VerifC24SelfAnnounce(w.hashes(cs.List), cs.Idx)
		if err != nil {
			c.Fail("self-announce-error", "cosiHook returned an error for a self announcement: "+err.Error(), cs)
		}
		selfLive = nagg > 0 || nver > 0
		opTerm = vh.App("RRequeue", w.hList(w.hashes(cs.List)))
	case "kqueue", "kstore":
		peer := crypto.Blake3Hash([]byte("verif-c24-peer"))
		txs := make([]*common.VersionedTransaction, len(cs.List))
		el := make([]string, len(cs.List))
		for i, t := range cs.List {
			txs[i] = w.txs[t][1]
			el[i] = "(" + w.hN(w.txh[t]) + ", " + vh.NU(uint64(2+2*t)) + ")"
		}
		if cs.Op == "kqueue" {
			must(node.CacheQueueTransactions(peer, txs))
			opTerm = vh.App("RNodeQueue", vh.List(el, "(N*N)"))
		} else {
			must(node.CacheStoreTransactions(peer, txs))
			opTerm = vh.App("RNodeStore", vh.List(el, "(N*N)"))
		}
	default:
		panic("unknown op " + cs.Op)
	}

	// observation
	after, err := store.VerifC23Dump()
	must(err)
	oq, oo, op := w.dumpTerms(after, true)
	oa := chain.Aggregators()
	k1, i1 := chain.Verifiers()
	ovTerms := make([]string, len(k1))
	for i := range k1 {
		ovTerms[i] = "(" + w.hN(k1[i]) + ", " + vh.NU(uint64(i1[i])) + ")"
	}
	term := vh.App("CRet", vh.List(ptx, "(N*N)"), vh.List(pfin, "N"), cq, co, cp,
		vh.List(aggTerms, "agg"), vh.List(vsTerms, "(N*N)"), opTerm,
		w.hList(oa), vh.List(ovTerms, "(N*N)"), oq, oo, op)

	// ---- oracle ---------------------------------------------------------------------
	pend := func(st *storage.VerifC23State, h crypto.Hash) int {
		n := 0
		for _, e := range st.Queue {
			if e.Hash == h {
				n++
			}
		}
		return n
	}
	inAgg := map[crypto.Hash]bool{}
	for _, h := range oa {
		inAgg[h] = true
	}
	wrap := false
	for _, i := range aggIdx {
		if cs.Props[i].Ts > ^uint64(0)-gap {
			wrap = true // timestamp + gap leaves uint64: the code's comparison wraps (year 2554); only no-loss is claimed there
		}
	}
	for _, i := range aggIdx {
		p := cs.Props[i]
		switch {
		case retired[i] && inAgg[w.snh[i]]:
			c.Fail("retired-still-aggregating", fmt.Sprintf("%s: proposal %d should have been retired but its aggregator remains", cs.Op, i), cs)
		case !retired[i] && !inAgg[w.snh[i]] && cs.Op == "expire" && !wrap:
			complete := p.Commit >= base[i] && p.Resp == p.Commit
			c.Fail("live-aggregator-expired", fmt.Sprintf("expiry retired proposal %d (complete=%v, ts=%d, now=%d)", i, complete, p.Ts, cs.Now), cs)
		case !retired[i] && !inAgg[w.snh[i]] && (cs.Op == "retry" || cs.Op == "abandon") && i != cs.Idx:
			c.Fail("other-aggregator-dropped", fmt.Sprintf("%s of proposal %d removed the aggregator of proposal %d", cs.Op, cs.Idx, i), cs)
		}
	}
	if cs.Op == "expire" && wrap {
		for _, i := range aggIdx { // whatever the code retired there must not lose transactions either
			if !inAgg[w.snh[i]] {
				retired[i] = true
			}
		}
	}
	// verifier entries of proposals that are not retired survive retry / abandon / expiry
	if cs.Op == "retry" || cs.Op == "abandon" || cs.Op == "expire" {
		gone := map[int]bool{}
		goneKey := map[crypto.Hash]bool{}
		for i := range retired {
			if retired[i] {
				gone[i] = true
				goneKey[w.snh[i]] = true
			}
		}
		if cs.Op != "expire" {
			gone[cs.Idx] = true
			goneKey[w.snh[cs.Idx]] = true
			// an abandoned proposal without an own verifier entry takes entries of nobody
		}
		left := map[crypto.Hash]int{}
		for i := range k1 {
			left[k1[i]] = i1[i]
		}
		for i := range k0 {
			// the object the retired proposal's snapshot key points at is what abandon clears
			clears := false
			for g := range gone {
				if obj, ok := vmap[w.snh[g]]; ok && obj == i0[i] {
					clears = true
				}
			}
			if clears || goneKey[k0[i]] {
				continue
			}
			if v, ok := left[k0[i]]; !ok || v != i0[i] {
				c.Fail("foreign-verifier-dropped", fmt.Sprintf("%s removed a verifier entry of proposal %d which was not retired", cs.Op, i0[i]), cs)
			}
		}
	}
	// owned transactions get no new queue entry on reset
	owned := map[crypto.Hash]bool{}
	if cs.Op == "reset" {
		for _, h := range w.hashes(cs.List) {
			owned[h] = true
			if pend(after, h) != pend(before, h) {
				c.Fail("owned-requeued", "round reset re-queued a transaction owned by the triggering snapshot", cs)
			}
		}
		if len(oa) != 0 || len(k1) != 0 {
			c.Fail("reset-keeps-state", "round reset left aggregators or verifiers behind", cs)
		}
	}
	// no loss: drain the queue and look for every pending transaction of a retired proposal
	need := map[int]bool{}
	for i := range retired {
		if retired[i] {
			for _, t := range cs.Props[i].Txs {
				need[t] = true
			}
		}
	}
	if cs.Op == "self" && selfLive {
		c.Fail("self-announced", "a self announcement that must be rejected or deferred installed an aggregator or verifier", cs)
		term = ""
	}
	if cs.Op == "requeue" || cs.Op == "kqueue" || cs.Op == "self" {
		for _, t := range cs.List {
			need[t] = true
		}
	}
	if cs.Op == "kstore" && len(after.Queue) != len(before.Queue) {
		c.Fail("store-schedules", "CacheStoreTransactions wrote a scheduling record", cs)
	}
	got := map[crypto.Hash]bool{}
	drained, err := store.CacheRetrieveTransactions(1000)
	if err != nil {
		c.Fail("retrieve-error", "retrieval failed after the retire path: "+err.Error(), cs)
	}
	for _, t := range drained {
		got[t.PayloadHash()] = true
	}
	requeued := 0
	for t := range need {
		tx := cs.Txs[t]
		hasBody := tx.Persist || tx.Cache == cacheStored || tx.Cache == cachePopped || tx.Cache == cachePending || cs.Op == "kqueue"
		if tx.Final || !hasBody || owned[w.txh[t]] {
			continue
		}
		requeued++
		if !got[w.txh[t]] {
			c.Fail("pending-transaction-lost", fmt.Sprintf("%s: transaction %d (persist=%v cache=%d) of a retired proposal is unfinalized and has a body but is not retrievable afterwards",
				cs.Op, t, tx.Persist, tx.Cache), cs)
		}
	}
	c.Case(cs.Op, canon(cs), requeued > 0 || len(k1) < len(k0), cs, term)
}

// ---- generators ----------------------------------------------------------------------

var salt uint64

func genTx(r *vh.Rand) Tx {
	t := Tx{}
	switch r.Intn(10) {
	case 0:
		t.Cache = cacheNone
	case 1:
		t.Cache = cacheStored
	case 2:
		t.Cache = cachePending
	case 3:
		t.Cache = cacheCorrupt
	default:
		t.Cache = cachePopped
	}
	t.Persist = r.Chance(1, 3)
	if t.Persist {
		t.Final = r.Chance(1, 2)
		if r.Chance(1, 3) {
			t.Cache = cacheNone
		}
	} else if r.Chance(1, 20) {
		t.Final = true // a finalization record without a body: ReadTransaction ignores it
	}
	return t
}

func gen(c *vh.Ctx) Case {
	r := c.Rng
	salt++
	cs := Case{Salt: uint64(c.Seed)<<32 | salt}
	nt := r.Range(1, 8)
	for i := 0; i < nt; i++ {
		cs.Txs = append(cs.Txs, genTx(r))
	}
	np := r.Range(1, 5)
	T := node.Epoch + uint64(r.Range(1, 400))*3600*1000000000
	switch r.Intn(12) {
	case 0:
		T = uint64(r.Range(1, 1000)) // before the epoch: threshold 1000
	case 1:
		T = ^uint64(0) - gap - uint64(r.Intn(3)) + uint64(r.Intn(3)) // timestamp + gap at the edge of uint64
	}
	base := node.VerifC24Threshold(T)
	for i := 0; i < np; i++ {
		p := Prop{Agg: r.Chance(3, 4)}
		switch r.Intn(5) {
		case 0:
			p.Ts = T
		case 1:
			p.Ts = T + gap/2
		case 2:
			p.Ts = T + 1
		case 3:
			p.Ts = T - uint64(r.Intn(2))
		default:
			p.Ts = T + gap
		}
		n := r.Range(1, 4)
		if r.Chance(1, 10) {
			n = 0
		}
		for k := 0; k < n; k++ {
			p.Txs = append(p.Txs, r.Intn(nt)) // overlaps between proposals, repeats inside one
		}
		switch r.Intn(5) {
		case 0:
			p.Commit = r.Intn(3)
		case 1:
			p.Commit = base - 1
		case 2:
			p.Commit = base
		default:
			p.Commit = base + r.Intn(3)
		}
		if base >= 1000 {
			p.Commit = r.Intn(4)
		}
		if p.Commit < 0 {
			p.Commit = 0
		}
		switch r.Intn(4) {
		case 0:
			p.Resp = r.Intn(p.Commit + 1)
		case 1:
			if p.Commit > 0 {
				p.Resp = p.Commit - 1
			}
		default:
			p.Resp = p.Commit
		}
		cs.Props = append(cs.Props, p)
	}
	// verifier map as cosiSendAnnouncement / cosiHandleAnnouncement fill it, then perturbed
	for i, p := range cs.Props {
		if r.Chance(9, 10) {
			cs.Vers = append(cs.Vers, VEntry{Tx: -1, Sn: i, Obj: i})
			for _, t := range p.Txs {
				cs.Vers = append(cs.Vers, VEntry{Tx: t, Obj: i})
			}
		}
	}
	if r.Chance(1, 4) && len(cs.Vers) > 0 {
		for k, n := 0, r.Range(1, 3); k < n; k++ {
			if r.Bool() {
				j := r.Intn(len(cs.Vers))
				cs.Vers = append(cs.Vers[:j], cs.Vers[j+1:]...)
				if len(cs.Vers) == 0 {
					break
				}
			} else {
				cs.Vers = append(cs.Vers, VEntry{Tx: r.Intn(nt), Obj: r.Intn(np)})
			}
		}
	}
	switch x := r.Intn(12); {
	case x == 11:
		cs.Op = "self"
		cs.Idx = r.Intn(3)
		cs.List = genBatch(r, cs.Txs, cs.Idx)
	case x == 10:
		cs.Op = []string{"kqueue", "kstore"}[r.Intn(2)]
		for k, n := 0, r.Range(1, 5); k < n; k++ {
			cs.List = append(cs.List, r.Intn(nt))
		}
	case x < 4:
		cs.Op = "expire"
		switch r.Intn(6) {
		case 0:
			cs.Now = T + gap - 1
		case 1:
			cs.Now = T + gap
		case 2:
			cs.Now = T + gap + gap/2
		case 3:
			cs.Now = T + 2*gap
		case 4:
			cs.Now = T
		default:
			cs.Now = T + gap + 1
		}
	case x < 6:
		cs.Op = "reset"
		for k, n := 0, r.Intn(4); k < n; k++ {
			cs.List = append(cs.List, r.Intn(nt))
		}
		if r.Chance(1, 3) { // the usual caller: owned = transactions of one of the proposals
			cs.List = append([]int{}, cs.Props[r.Intn(np)].Txs...)
		}
	case x < 8:
		cs.Op = "retry"
		cs.Idx = r.Intn(np)
		for k := 0; k < 4 && !cs.Props[cs.Idx].Agg; k++ {
			cs.Idx = r.Intn(np)
		}
	case x < 9:
		cs.Op = "abandon"
		cs.Idx = r.Intn(np)
	default:
		cs.Op = "requeue"
		for k, n := 0, r.Intn(6); k < n; k++ {
			cs.List = append(cs.List, r.Intn(nt))
		}
	}
	return cs
}

// genBatch: a local batch of 1..6 distinct members.  In the pledging situation the
// members are validated before the rejection: the synthetic cache-only bodies (no
// inputs) would fail Validate for a reason that is not a retry reason, so there a
// cache-only member is only placed behind a member finalized elsewhere.
func genBatch(r *vh.Rand, txs []Tx, situation int) []int {
	perm := make([]int, len(txs))
	for i := range perm {
		perm[i] = i
	}
	for i := len(perm) - 1; i > 0; i-- {
		j := r.Intn(i + 1)
		perm[i], perm[j] = perm[j], perm[i]
	}
	n := r.Range(1, 6)
	if n > len(perm) {
		n = len(perm)
	}
	batch := perm[:n]
	if situation != 0 {
		return batch
	}
	var out, late []int
	seenFinal := false
	for _, t := range batch {
		switch {
		case txs[t].Persist:
			out = append(out, t)
			seenFinal = seenFinal || txs[t].Final
		case txs[t].Cache == cacheCorrupt:
		default:
			late = append(late, t)
		}
	}
	if seenFinal {
		// finalized member first, then everything else
		var fin, rest []int
		for _, t := range out {
			if txs[t].Final && len(fin) == 0 {
				fin = append(fin, t)
			} else {
				rest = append(rest, t)
			}
		}
		out = append(append(fin, rest...), late...)
	}
	return out
}

func corpus() []Case {
	T := node.Epoch + 24*3600*1000000000
	b := node.VerifC24Threshold(T)
	own := func(i int, txs ...int) []VEntry {
		v := []VEntry{{Tx: -1, Sn: i, Obj: i}}
		for _, t := range txs {
			v = append(v, VEntry{Tx: t, Obj: i})
		}
		return v
	}
	popped := Tx{Cache: cachePopped}
	return []Case{
		// kernel TestCosiAggregatorExpiryRequeuesTransactions: one expired proposal, one tx
		{Salt: 1, Txs: []Tx{popped}, Props: []Prop{{Ts: T, Txs: []int{0}, Agg: true}}, Vers: own(0, 0), Op: "expire", Now: T + gap},
		{Salt: 2, Txs: []Tx{popped}, Props: []Prop{{Ts: T, Txs: []int{0}, Agg: true}}, Vers: own(0, 0), Op: "expire", Now: T + gap - 1},
		// complete aggregator is not retired; threshold reached but a response missing is
		{Salt: 3, Txs: []Tx{popped, popped}, Props: []Prop{{Ts: T, Txs: []int{0}, Agg: true, Commit: b, Resp: b}, {Ts: T, Txs: []int{1}, Agg: true, Commit: b, Resp: b - 1}},
			Vers: append(own(0, 0), own(1, 1)...), Op: "expire", Now: T + 2*gap},
		{Salt: 4, Txs: []Tx{popped}, Props: []Prop{{Ts: T, Txs: []int{0}, Agg: true, Commit: b - 1, Resp: b - 1}}, Vers: own(0, 0), Op: "expire", Now: T + gap},
		// kernel TestCosiRoundResetRequeuesOrphanedTransactions
		{Salt: 5, Txs: []Tx{popped, popped}, Props: []Prop{{Ts: T, Txs: []int{0, 1}, Agg: true}}, Vers: own(0, 0, 1), Op: "reset", List: []int{0}},
		// shared transaction between a retired and a live proposal: requeued, the live verifier entry stays
		{Salt: 6, Txs: []Tx{popped, popped}, Props: []Prop{{Ts: T, Txs: []int{0, 1}, Agg: true}, {Ts: T + gap, Txs: []int{1}, Agg: true}},
			Vers: append(own(0, 0, 1), own(1, 1)...), Op: "retry", Idx: 0},
		// bodies: persistent only, cache only, none, finalized, undecodable
		{Salt: 7, Txs: []Tx{{Persist: true}, {Cache: cacheStored}, {}, {Persist: true, Final: true, Cache: cachePopped}, {Cache: cacheCorrupt}, {Persist: true, Cache: cacheCorrupt}},
			Props: []Prop{{Ts: T, Txs: []int{0, 1, 2, 3, 4, 5}, Agg: true}}, Vers: own(0, 0, 1, 2, 3, 4, 5), Op: "retry", Idx: 0},
		// foreign proposal abandoned: nothing requeued, local one untouched
		{Salt: 8, Txs: []Tx{popped, popped}, Props: []Prop{{Ts: T, Txs: []int{0}, Agg: true}, {Ts: T, Txs: []int{0, 1}}},
			Vers: append(own(0, 0), own(1, 0, 1)...), Op: "abandon", Idx: 1},
		{Salt: 9, Txs: []Tx{{Cache: cachePending}, popped}, Props: []Prop{{Ts: T, Txs: []int{0, 1, 1}, Agg: true}}, Vers: own(0, 0, 1), Op: "reset"},
		{Salt: 10, Txs: []Tx{popped}, Props: []Prop{{Ts: ^uint64(0) - 5, Txs: []int{0}, Agg: true}}, Vers: own(0, 0), Op: "expire", Now: T},
		{Salt: 11, Txs: []Tx{popped, {Persist: true}}, Props: []Prop{{Ts: T, Txs: nil, Agg: true}}, Op: "requeue", List: []int{0, 1, 0}},
		// kernel TestCacheStoreTransactionsDoesNotQueue, and the queueing wrapper with a finalized transaction
		{Salt: 12, Txs: []Tx{{}, {Persist: true}, popped}, Props: []Prop{{Ts: T, Txs: nil}}, Op: "kstore", List: []int{0, 1, 2}},
		{Salt: 13, Txs: []Tx{{}, {Persist: true, Final: true}, popped, {Cache: cacheStored}}, Props: []Prop{{Ts: T, Txs: nil}}, Op: "kqueue", List: []int{0, 1, 2, 3}},
		// local batches through the real cosiHook: a member finalized elsewhere, the chain not yet broadcast, the node catching up,
		// a pledging chain that defers; pending members have their body in the cache (popped) or in the persistent store
		{Salt: 14, Txs: []Tx{{Persist: true, Final: true}, popped}, Props: []Prop{{Ts: T}}, Op: "self", Idx: 0, List: []int{0, 1}},
		{Salt: 15, Txs: []Tx{{Persist: true}, {Persist: true, Final: true}, popped, {Persist: true, Cache: cachePopped}}, Props: []Prop{{Ts: T}}, Op: "self", Idx: 0, List: []int{0, 1, 2, 3}},
		{Salt: 16, Txs: []Tx{popped, {Persist: true}, {Persist: true, Final: true}}, Props: []Prop{{Ts: T}}, Op: "self", Idx: 1, List: []int{0, 1, 2}},
		{Salt: 17, Txs: []Tx{popped, {Persist: true}, {Persist: true, Final: true}, {Cache: cacheStored}}, Props: []Prop{{Ts: T}}, Op: "self", Idx: 2, List: []int{0, 1, 2, 3}},
		{Salt: 18, Txs: []Tx{{Persist: true}, {Persist: true, Cache: cachePopped}}, Props: []Prop{{Ts: T}}, Op: "self", Idx: 0, List: []int{0, 1}},
		{Salt: 19, Txs: []Tx{popped}, Props: []Prop{{Ts: T}}, Op: "self", Idx: 1, List: []int{0}},
	}
}

func main() {
	c := vh.Start("C24")
	c.Rep.Rule = "corpus (the two kernel tests, complete / incomplete aggregators at the expiry instant, shared transactions, every body state, " +
		"foreign abandon, uint64 edge), then random cases: 1..8 transactions (persistent/cache/none/undecodable bodies, finalized or not, " +
		"pending or already retrieved), 1..5 proposals with overlapping transaction lists, counts around the consensus threshold, timestamps " +
		"around now-gap, verifier map as the announcement handlers fill it (1/4 perturbed); one of expire/reset/retry/abandon/requeue, the kernel/node.go cache wrappers, or a local batch of 1..6 members " +
		"(some finalized elsewhere, others pending with cache or persistent bodies) through the real cosiHook in each rejecting/deferring situation. " +
		"Non-trivial = a transaction had to be re-queued or verifier entries were removed; distinct by the whole case."
	closeAll := setup()
	defer closeAll()
	if c.Replay != "" {
		var cs Case
		c.ReplayCase(&cs)
		run(c, cs)
		c.Finish()
		return
	}
	for _, cs := range corpus() {
		run(c, cs)
	}
	n := c.Scale(300, 10000)
	for i := 0; i < n; i++ {
		run(c, gen(c))
	}
	c.Finish()
}
