// C32 harness: one-time (ghost) keys, base58, addresses and the text forms of
// key / hash / signature / collective signature.  Runs the real functions of
// crypto, common and util/base58, emits each observation as a Coq case for the
// models (GhostKey, Base58, Address, HexText), and checks the implementation
// directly against the property text with independent references (math/big
// base conversion, library sha3, library curve arithmetic).
package main

import (
	"bytes"
	"crypto/sha3"
	"encoding/hex"
	"encoding/json"
	"fmt"
	"math/big"
	"sort"
	"strings"
	"unicode/utf8"

	"filippo.io/edwards25519"
	"github.com/MixinNetwork/mixin/common"
	"github.com/MixinNetwork/mixin/crypto"
	"github.com/MixinNetwork/mixin/util/base58"
	"verifharness/vh"
)

type Case struct {
	Op   string `json:"op"`
	Kind string `json:"kind,omitempty"`
	In   string `json:"in,omitempty"`   // hex of the input bytes / text
	In2  string `json:"in2,omitempty"`  // second input (hex)
	Typ  string `json:"typ,omitempty"`  // key | hash | sig | cosi
	Mask uint64 `json:"mask,omitempty"` // cosi mask
	R    string `json:"r,omitempty"`    // ghost: 64-byte seeds (hex)
	A    string `json:"a,omitempty"`
	B    string `json:"b,omitempty"`
	I    uint64 `json:"i,omitempty"`
}

const alphabet58 = "123456789ABCDEFGHJKLMNPQRSTUVWXYZabcdefghijkmnopqrstuvwxyz" // the Bitcoin base58 alphabet (property side)

func unhex(s string) []byte {
	b, err := hex.DecodeString(s)
	if err != nil {
		panic(err)
	}
	return b
}
func hx(b []byte) string { return hex.EncodeToString(b) }

func HB(b []byte) string {
	if len(b) == 0 {
		return "(@nil N)"
	}
	return "(hb 0x" + hex.EncodeToString(b) + "%huint)"
}
func HN(b []byte) string {
	if len(b) == 0 {
		return "0%N"
	}
	return "(hn 0x" + hex.EncodeToString(b) + "%huint)"
}
func HZ(v *big.Int) string {
	if v.Sign() == 0 {
		return "0%Z"
	}
	return "(hz 0x" + v.Text(16) + "%huint)"
}

// ---- references -------------------------------------------------------------------

func refB58Encode(b []byte) string {
	x := new(big.Int).SetBytes(b)
	var out []byte
	z, m, k := big.NewInt(0), new(big.Int), big.NewInt(58)
	for x.Cmp(z) > 0 {
		x.DivMod(x, k, m)
		out = append(out, alphabet58[m.Int64()])
	}
	for _, c := range b {
		if c != 0 {
			break
		}
		out = append(out, alphabet58[0])
	}
	for i, j := 0, len(out)-1; i < j; i, j = i+1, j-1 {
		out[i], out[j] = out[j], out[i]
	}
	return string(out)
}

// ok=false when a character is outside the alphabet
func refB58Decode(s string) (out []byte, ok bool) {
	x := new(big.Int)
	for i := 0; i < len(s); i++ {
		d := strings.IndexByte(alphabet58, s[i])
		if d < 0 {
			return nil, false
		}
		x.Mul(x, big.NewInt(58))
		x.Add(x, big.NewInt(int64(d)))
	}
	n := 0
	for n < len(s) && s[n] == alphabet58[0] {
		n++
	}
	return append(make([]byte, n), x.Bytes()...), true
}

var groupOrder, _ = new(big.Int).SetString("7237005577332262213973186563042994240857116359379907606001950938285454250989", 10)

func leToBig(b []byte) *big.Int {
	r := make([]byte, len(b))
	for i := range b {
		r[len(b)-1-i] = b[i]
	}
	return new(big.Int).SetBytes(r)
}

func scalarOf(v *big.Int) *edwards25519.Scalar {
	b := make([]byte, 32)
	v.FillBytes(b)
	for i, j := 0, 31; i < j; i, j = i+1, j-1 {
		b[i], b[j] = b[j], b[i]
	}
	s, err := edwards25519.NewScalar().SetCanonicalBytes(b)
	if err != nil {
		panic(err)
	}
	return s
}

// canonical encoding of a point of the prime-order subgroup (what an address key must be)
func refCheckKey(k []byte) bool {
	p, err := edwards25519.NewIdentityPoint().SetBytes(k)
	if err != nil || !bytes.Equal(p.Bytes(), k) {
		return false
	}
	lm1 := scalarOf(new(big.Int).Sub(groupOrder, big.NewInt(1)))
	q := edwards25519.NewIdentityPoint().ScalarMult(lm1, p)
	q.Add(q, p)
	return q.Equal(edwards25519.NewIdentityPoint()) == 1
}

func refAddressString(sp, vw []byte) string {
	ck := sha3.Sum256(append(append([]byte("XIN"), sp...), vw...))
	return "XIN" + refB58Encode(append(append(append([]byte{}, sp...), vw...), ck[:4]...))
}

// ---- runners ------------------------------------------------------------------------

func resBytes(ok bool, b []byte) string {
	if !ok {
		return vh.Err("(list N)")
	}
	return vh.Ok(HB(b))
}

func runB58(c *vh.Ctx, cs Case) {
	in := unhex(cs.In)
	switch cs.Op {
	case "b58enc":
		got := base58.Encode(in)
		c.Case("b58enc/"+cs.Kind, cs.In, len(in) > 0, cs, vh.App("CB58Enc", HB(in), HB([]byte(got))))
		if got != refB58Encode(in) {
			c.Fail("b58-encode-wrong", "Encode differs from the base-58 expansion of the number with one '1' per leading zero byte", cs)
		}
		if back := base58.Decode(got); !bytes.Equal(back, in) {
			c.Fail("b58-decode-encode", fmt.Sprintf("Decode(Encode(%x)) = %x", in, back), cs)
		}
	case "b58dec":
		got := base58.Decode(string(in))
		ref, ok := refB58Decode(string(in))
		c.Case("b58dec/"+cs.Kind, cs.In, ok && len(in) > 0, cs, vh.App("CB58Dec", HB(in), HB(got)))
		if ok {
			if !bytes.Equal(got, ref) {
				c.Fail("b58-decode-wrong", "Decode differs from the number's bytes with one zero byte per leading '1'", cs)
			}
			if back := base58.Encode(got); back != string(in) {
				c.Fail("b58-encode-decode", fmt.Sprintf("Encode(Decode(%q)) = %q", in, back), cs)
			}
		} else if len(got) != 0 {
			c.Fail("b58-decode-accepts-invalid", "text with a character outside the alphabet decoded to a non-empty value", cs)
		}
	}
}

func ckTable(keys ...[]byte) string {
	var el []string
	for _, k := range keys {
		var kk crypto.Key
		copy(kk[:], k)
		el = append(el, "("+HB(k)+", "+vh.Bool(len(k) == 32 && kk.CheckKey())+")")
	}
	return vh.List(el, "(list N * bool)")
}

func runAddr(c *vh.Ctx, cs Case) {
	switch cs.Op {
	case "addrparse":
		s := string(unhex(cs.In))
		var a common.Address
		var err error
		pan, pv := vh.Catch(func() { a, err = common.NewAddressFromString(s) })
		if pan {
			c.Case("addrparse/"+cs.Kind, cs.In, false, cs, "")
			c.Fail("address-parse-panic", fmt.Sprint("NewAddressFromString panicked: ", pv), cs)
			return
		}
		accepted := err == nil
		// reference decision
		var data []byte
		want, okAlpha := false, false
		if strings.HasPrefix(s, "XIN") {
			data, okAlpha = refB58Decode(s[3:])
			if okAlpha && len(data) == 68 {
				ck := sha3.Sum256(append([]byte("XIN"), data[:64]...))
				want = bytes.Equal(ck[:4], data[64:]) && refCheckKey(data[:32]) && refCheckKey(data[32:64])
			}
		}
		if accepted != want {
			c.Fail("address-decision", fmt.Sprintf("NewAddressFromString(%q) accepted=%v, the format (prefix, 68-byte base58 payload, SHA3 checksum, two valid keys) says %v", s, accepted, want), cs)
		}
		if accepted {
			if back := a.String(); back != s {
				c.Fail("address-not-canonical", fmt.Sprintf("accepted %q prints back as %q", s, back), cs)
			}
			if len(data) == 68 && (!bytes.Equal(a.PublicSpendKey[:], data[:32]) || !bytes.Equal(a.PublicViewKey[:], data[32:64])) {
				c.Fail("address-value", "parsed keys are not the payload's keys", cs)
			}
		}
		// model case: SHA3 and CheckKey answered on the payload the text denotes
		hk, hv := []byte{}, []byte{}
		ck := ckTable()
		if len(data) >= 64 {
			hk = append([]byte("XIN"), data[:64]...)
			h := sha3.Sum256(hk)
			hv = h[:]
			ck = ckTable(data[:32], data[32:64])
			if crypto.Key(data[:32]).CheckKey() != refCheckKey(data[:32]) || crypto.Key(data[32:64]).CheckKey() != refCheckKey(data[32:64]) {
				c.Fail("checkkey-differs", "Key.CheckKey differs from: canonical encoding of a prime-order point", cs)
			}
		}
		obs := vh.Err("(list N * list N)")
		if accepted {
			obs = vh.Ok("(" + HB(a.PublicSpendKey[:]) + ", " + HB(a.PublicViewKey[:]) + ")")
		}
		c.Case("addrparse/"+cs.Kind, cs.In, okAlpha && len(data) == 68, cs, vh.App("CAddrParse", HB([]byte(s)), HB(hk), HB(hv), ck, obs))
	case "addrprint":
		sp, vw := unhex(cs.In), unhex(cs.In2)
		a := common.Address{PublicSpendKey: crypto.Key(sp), PublicViewKey: crypto.Key(vw)}
		got := a.String()
		hk := append(append([]byte("XIN"), sp...), vw...)
		h := sha3.Sum256(hk)
		c.Case("addrprint/"+cs.Kind, cs.In+cs.In2, true, cs, vh.App("CAddrPrint", HB(sp), HB(vw), HB(hk), HB(h[:]), HB([]byte(got))))
		if got != refAddressString(sp, vw) {
			c.Fail("address-print-wrong", "String() is not prefix + base58(spend, view, first 4 bytes of SHA3(prefix, spend, view))", cs)
		}
		valid := refCheckKey(sp) && refCheckKey(vw)
		back, err := common.NewAddressFromString(got)
		if valid && (err != nil || back.PublicSpendKey != a.PublicSpendKey || back.PublicViewKey != a.PublicViewKey) {
			c.Fail("address-roundtrip", "printed address does not parse back to the same keys", cs)
		}
		if valid {
			var j common.Address
			jb, _ := a.MarshalJSON()
			if e := j.UnmarshalJSON(jb); e != nil || j.PublicSpendKey != a.PublicSpendKey || j.PublicViewKey != a.PublicViewKey {
				c.Fail("address-json-roundtrip", "JSON form of the address does not parse back to the same keys", cs)
			}
		}
	}
}

func sizeOf(typ string) int {
	switch typ {
	case "sig":
		return 64
	case "cosi":
		return 72
	}
	return 32
}

func isHexText(s string) bool {
	for i := 0; i < len(s); i++ {
		ch := s[i]
		if !(ch >= '0' && ch <= '9' || ch >= 'a' && ch <= 'f' || ch >= 'A' && ch <= 'F') {
			return false
		}
	}
	return len(s)%2 == 0
}

// text -> value through the real parser of the type; form is "str" or "json"
func parseText(typ, form string, in []byte) (val []byte, mask uint64, err error) {
	switch typ + "/" + form {
	case "key/str":
		k, e := crypto.KeyFromString(string(in))
		return k[:], 0, e
	case "hash/str":
		h, e := crypto.HashFromString(string(in))
		return h[:], 0, e
	case "key/json":
		var k crypto.Key
		e := k.UnmarshalJSON(in)
		return k[:], 0, e
	case "hash/json":
		var h crypto.Hash
		e := h.UnmarshalJSON(in)
		return h[:], 0, e
	case "sig/json":
		var s crypto.Signature
		e := s.UnmarshalJSON(in)
		return s[:], 0, e
	case "cosi/json":
		var s crypto.CosiSignature
		e := s.UnmarshalJSON(in)
		return s.Signature[:], s.Mask, e
	}
	panic("no parser " + typ + "/" + form)
}

func printValue(typ, form string, val []byte, mask uint64) []byte {
	var str string
	var js []byte
	switch typ {
	case "key":
		str = crypto.Key(val).String()
		js, _ = crypto.Key(val).MarshalJSON()
	case "hash":
		str = crypto.Hash(val).String()
		js, _ = crypto.Hash(val).MarshalJSON()
	case "sig":
		str = crypto.Signature(val).String()
		js, _ = crypto.Signature(val).MarshalJSON()
	case "cosi":
		cs := crypto.CosiSignature{Signature: crypto.Signature(val), Mask: mask}
		str = cs.String()
		js, _ = cs.MarshalJSON()
	}
	if form == "json" {
		return js
	}
	return []byte(str)
}

func modelable(in []byte) bool { // the class json_unquote is stated for
	for _, ch := range in {
		if ch >= 128 || ch == '\\' {
			return false
		}
	}
	return true
}

func runText(c *vh.Ctx, cs Case) {
	typ := cs.Typ
	size := sizeOf(typ)
	switch cs.Op {
	case "parse", "parsejson":
		form := "str"
		if cs.Op == "parsejson" {
			form = "json"
		}
		in := unhex(cs.In)
		var val []byte
		var mask uint64
		var err error
		pan, pv := vh.Catch(func() { val, mask, err = parseText(typ, form, in) })
		if pan {
			c.Case(cs.Op+"/"+typ+"/"+cs.Kind, cs.In, false, cs, "")
			c.Fail("text-parse-panic", fmt.Sprint("parser panicked: ", pv), cs)
			return
		}
		ok := err == nil
		term := ""
		if form == "str" {
			term = vh.App("CFixedParse", vh.Nat(size), HB(in), resBytes(ok, val))
			want := isHexText(string(in)) && len(in) == 2*size
			if ok != want {
				c.Fail("text-decision", fmt.Sprintf("%s text %q accepted=%v; hexadecimal of %d bytes says %v", typ, in, ok, size, want), cs)
			}
			if ok && hx(val) != strings.ToLower(string(in)) {
				c.Fail("text-value", "parsed value is not the one the hexadecimal text denotes", cs)
			}
		} else if modelable(in) {
			if typ == "cosi" {
				obs := vh.Err("(list N * N)")
				if ok {
					obs = vh.Ok("(" + HB(val) + ", " + vh.NU(mask) + ")")
				}
				term = vh.App("CCosiJson", HB(in), obs)
			} else {
				term = vh.App("CFixedJson", vh.Nat(size), HB(in), resBytes(ok, val))
			}
		}
		if form == "json" {
			// what any JSON decoder must do with a plain JSON string
			var plain string
			if len(in) >= 2 && in[0] == '"' && in[len(in)-1] == '"' && json.Unmarshal(in, &plain) == nil && !bytes.ContainsAny(in, "\\") {
				want := isHexText(plain) && len(plain) == 2*size
				if ok != want {
					c.Fail("json-decision", fmt.Sprintf("%s JSON %q accepted=%v; a string of %d hexadecimal bytes says %v", typ, in, ok, size, want), cs)
				}
				if ok {
					full := hx(val)
					if typ == "cosi" {
						full += fmt.Sprintf("%016x", mask)
					}
					if full != strings.ToLower(plain) {
						c.Fail("json-value", "parsed value is not the one the text denotes", cs)
					}
				}
			}
		}
		if ok { // value round trip of whatever was accepted
			for _, f := range []string{"str", "json"} {
				if f == "str" && (typ == "sig" || typ == "cosi") {
					continue // no parser from plain text for these types
				}
				v2, m2, e2 := parseText(typ, f, printValue(typ, f, val, mask))
				if e2 != nil || !bytes.Equal(v2, val) || m2 != mask {
					c.Fail("print-parse", typ+": printing the parsed value and parsing again gives another value ("+f+")", cs)
				}
			}
		}
		c.Case(cs.Op+"/"+typ+"/"+cs.Kind, cs.Typ+cs.In, ok, cs, term)
	case "print":
		val := unhex(cs.In)
		str := printValue(typ, "str", val, cs.Mask)
		js := printValue(typ, "json", val, cs.Mask)
		var t1, t2 string
		if typ == "cosi" {
			t1 = vh.App("CCosiPrint", HB(val), vh.NU(cs.Mask), HB(str))
			t2 = vh.App("CCosiToJson", HB(val), vh.NU(cs.Mask), HB(js))
		} else {
			t1 = vh.App("CFixedPrint", HB(val), HB(str))
			t2 = vh.App("CFixedToJson", HB(val), HB(js))
		}
		key := fmt.Sprintf("%s|%s|%d", typ, cs.In, cs.Mask)
		c.Case("print/"+typ, key, true, cs, t1)
		c.Case("printjson/"+typ, key+"|json", true, cs, t2)
		want := hx(val)
		if typ == "cosi" {
			want += fmt.Sprintf("%016x", cs.Mask)
		}
		if string(str) != want || string(js) != `"`+want+`"` {
			c.Fail("print-wrong", typ+": text form is not the lower-case hexadecimal of the value", cs)
		}
		for _, f := range []string{"str", "json"} {
			if f == "str" && (typ == "sig" || typ == "cosi") {
				continue
			}
			v2, m2, e2 := parseText(typ, f, printValue(typ, f, val, cs.Mask))
			if e2 != nil || !bytes.Equal(v2, val) || m2 != cs.Mask {
				c.Fail("print-parse", typ+": parsing the printed value gives another value ("+f+")", cs)
			}
		}
	}
}

func runGhost(c *vh.Ctx, cs Case) {
	r, a, b := crypto.NewKeyFromSeed(unhex(cs.R)), crypto.NewKeyFromSeed(unhex(cs.A)), crypto.NewKeyFromSeed(unhex(cs.B))
	R, A, B := r.Public(), a.Public(), b.Public()
	i := cs.I
	var P, p, V *crypto.Key
	pan, pv := vh.Catch(func() {
		P = crypto.DeriveGhostPublicKey(&r, &A, &B, i)
		p = crypto.DeriveGhostPrivateKey(&R, &a, &b, i)
		V = crypto.ViewGhostOutputKey(P, &a, &R, i)
	})
	key := fmt.Sprintf("%s|%s|%s|%d", cs.R, cs.A, cs.B, i)
	if pan {
		c.Case("ghost/"+cs.Kind, key, false, cs, "")
		c.Fail("ghost-panic", fmt.Sprint("derivation panicked on valid keys: ", pv), cs)
		return
	}
	// ---- oracle: the property text ----
	if p.Public() != *P {
		c.Fail("ghost-mismatch", "public key of the recipient's one-time private key differs from the sender's one-time public key", cs)
	}
	if *V != B {
		c.Fail("ghost-view", "viewing the output with the private view key does not recover the public spend key", cs)
	}
	// ---- model cases: scalars, HashScalar and point encoding answered by the library on the stated inputs ----
	rz, az, bz := leToBig(r[:]), leToBig(a[:]), leToBig(b[:])
	shared := new(big.Int).Mod(new(big.Int).Mul(rz, az), groupOrder) // discrete log of r·A = a·R
	Ap, err := edwards25519.NewIdentityPoint().SetBytes(A[:])
	if err != nil {
		panic(err)
	}
	sharedPoint := edwards25519.NewIdentityPoint().ScalarMult(scalarOf(rz), Ap)
	hv := leToBig(crypto.HashScalar(sharedPoint, i).Bytes())
	pz := new(big.Int).Mod(new(big.Int).Add(bz, hv), groupOrder)
	encP := edwards25519.NewIdentityPoint().ScalarBaseMult(scalarOf(pz)).Bytes()
	encB := edwards25519.NewIdentityPoint().ScalarBaseMult(scalarOf(bz)).Bytes()
	iz := new(big.Int).SetUint64(i)
	c.Case("ghost/pub/"+cs.Kind, key+"|pub", true, cs, vh.App("CGhostPub", HZ(rz), HZ(az), HZ(bz), HZ(iz), HZ(shared), HZ(iz), HZ(hv), HZ(pz), HN(encP), HN(P[:])))
	c.Case("ghost/priv/"+cs.Kind, key+"|priv", true, cs, vh.App("CGhostPriv", HZ(rz), HZ(az), HZ(bz), HZ(iz), HZ(shared), HZ(iz), HZ(hv), HZ(leToBig(p[:]))))
	c.Case("ghost/view/"+cs.Kind, key+"|view", true, cs, vh.App("CGhostView", HZ(leToBig(p[:])), HZ(az), HZ(rz), HZ(iz), HZ(shared), HZ(iz), HZ(hv), HZ(bz), HN(encB), HN(V[:])))
}

func run(c *vh.Ctx, cs Case) {
	switch cs.Op {
	case "b58enc", "b58dec":
		runB58(c, cs)
	case "addrparse", "addrprint":
		runAddr(c, cs)
	case "parse", "parsejson", "print":
		runText(c, cs)
	case "ghost":
		runGhost(c, cs)
	default:
		panic("unknown op " + cs.Op)
	}
}

// ---- generators ----------------------------------------------------------------------

func randAlpha(r *vh.Rand, n int) []byte {
	b := make([]byte, n)
	for i := range b {
		b[i] = alphabet58[r.Intn(58)]
	}
	return b
}

// ---- non-ASCII replacements ----------------------------------------------------------
// base58.Decode ranges over RUNES of each 10-byte chunk: a replacement for one
// character of a text, as UTF-8 bytes, by kind:
//
//	0: U+0080..U+00FF   1: rune >= U+0100 whose low byte is the original character
//	2: ... whose low byte is another alphabet character   3: ... a non-alphabet byte
//	4: rune above U+FFFF with the original low byte        5: invalid UTF-8
var invalidUTF8 = [][]byte{{0x80}, {0xc3}, {0xe2, 0x82}, {0xc0, 0xb1}, {0xc1, 0x81}, {0xed, 0xa0, 0x80}, {0xf8, 0x88, 0x80, 0x80, 0x80}, {0xff}, {0xf4, 0x90, 0x80, 0x80}, {0xe0, 0x80, 0xb1}}

const nonASCIIKinds = 6

func nonASCII(r *vh.Rand, orig byte, kind int) []byte {
	hi := func() rune {
		k := rune(r.Range(1, 0xd7))
		return k << 8
	}
	switch kind {
	case 0:
		return utf8.AppendRune(nil, rune(r.Range(0x80, 0xff)))
	case 1:
		return utf8.AppendRune(nil, hi()|rune(orig))
	case 2:
		return utf8.AppendRune(nil, hi()|rune(alphabet58[r.Intn(58)]))
	case 3:
		return utf8.AppendRune(nil, hi()|rune([]byte("0OIl \x00\x7f\xff\x80")[r.Intn(9)]))
	case 4:
		return utf8.AppendRune(nil, rune(r.Range(1, 0x10))<<16|rune(r.Intn(256))<<8|rune(orig))
	default:
		return invalidUTF8[r.Intn(len(invalidUTF8))]
	}
}

func replaceAt(s []byte, pos int, with []byte) []byte {
	out := append([]byte{}, s[:pos]...)
	out = append(out, with...)
	return append(out, s[pos+1:]...)
}

var kindName = []string{"latin1", "low=orig", "low=alpha", "low=foreign", "astral", "invalid-utf8"}

// every position of one printed address, one base58 text and one hex text, every kind
func sweepNonASCII(c *vh.Ctx) {
	r := c.Rng
	sp, vw := validKey(r, false), validKey(r, false)
	printed := []byte(common.Address{PublicSpendKey: sp, PublicViewKey: vw}.String())
	for pos := range printed {
		for k := 0; k < nonASCIIKinds; k++ {
			run(c, Case{Op: "addrparse", Kind: "rune/" + kindName[k], In: hx(replaceAt(printed, pos, nonASCII(r, printed[pos], k)))})
		}
	}
	txt := append(bytes.Repeat([]byte{'1'}, r.Intn(3)), randAlpha(r, r.Range(12, 34))...)
	for pos := range txt {
		for k := 0; k < nonASCIIKinds; k++ {
			run(c, Case{Op: "b58dec", Kind: "rune/" + kindName[k], In: hx(replaceAt(txt, pos, nonASCII(r, txt[pos], k)))})
		}
	}
	for _, typ := range []string{"key", "hash"} {
		h := []byte(hx(r.Bytes(32)))
		for pos := 0; pos < len(h); pos += 1 + r.Intn(3) {
			k := r.Intn(nonASCIIKinds)
			m := replaceAt(h, pos, nonASCII(r, h[pos], k))
			run(c, Case{Op: "parse", Kind: "rune/" + kindName[k], Typ: typ, In: hx(m)})
			run(c, Case{Op: "parsejson", Kind: "rune/" + kindName[k], Typ: typ, In: hx([]byte(`"` + string(m) + `"`))})
		}
	}
	for _, typ := range []string{"sig", "cosi"} {
		h := []byte(hx(r.Bytes(sizeOf(typ))))
		for i := 0; i < 12; i++ {
			pos, k := r.Intn(len(h)), r.Intn(nonASCIIKinds)
			run(c, Case{Op: "parsejson", Kind: "rune/" + kindName[k], Typ: typ, In: hx([]byte(`"` + string(replaceAt(h, pos, nonASCII(r, h[pos], k))) + `"`))})
		}
	}
}

// ---- insertions / deletions / concatenations around the structural parts --------------
func addrVariants(r *vh.Rand, addr string) map[string][]string {
	body := addr[3:]
	return map[string][]string{
		"junk-before":   {"x" + addr, " " + addr, "mixin:" + addr, "\x00" + addr, "\t" + addr, "\n" + addr, "1" + addr, "X" + addr},
		"doubled":       {"XIN" + addr, addr + addr, addr + body, "XINXIN" + addr},
		"prefix-case":   {"xin" + body, "Xin" + body, "xIN" + body, "XIn" + body, "XiN" + body},
		"prefix-split":  {"XI N" + body, "X IN" + body, "XI1N" + body, "X\x00IN" + body, "XIN " + body, "XIN\x00" + body},
		"junk-after":    {addr + "1", addr + " ", addr + "\n", addr + "XIN", addr + "\x00", addr + "\t", addr + "\r\n", addr + "x"},
		"prefix-later":  {"abcXIN" + body, "1XIN" + body, body[:5] + "XIN" + body, "abc" + addr, " XIN" + body, "XI" + addr},
		"prefix-delete": {"IN" + body, "XN" + body, "XI" + body, "N" + body, "X" + body},
		"empty-body":    {"XIN", "XIN ", " XIN", "", " ", "\x00"},
		"body-only":     {body, " " + body, body + " "},
		"whitespace":    {" " + addr + " ", "\t" + addr + "\t", "\x00" + addr + "\x00", addr[:3] + " " + body, addr[:40] + " " + addr[40:], addr[:40] + "\x00" + addr[40:]},
	}
}

func textVariants(h string) map[string][]string {
	return map[string][]string{
		"junk-before": {"x" + h, " " + h, "0x" + h, "\x00" + h, "0" + h, "00" + h},
		"junk-after":  {h + "0", h + " ", h + "\n", h + "\x00", h + "00", h + "x"},
		"doubled":     {h + h, h[:2] + h},
		"whitespace":  {" " + h + " ", h[:10] + " " + h[10:], h[:10] + "\x00" + h[10:], "\t" + h},
		"empty":       {"", " ", "\x00"},
	}
}

func jsonVariants(h string) map[string][]string {
	q := `"` + h + `"`
	return map[string][]string{
		"junk-before-quote": {"x" + q, " " + q, "\x00" + q, `"` + q, "[" + q},
		"junk-after-quote":  {q + "x", q + " ", q + "\n", q + `"`, q + "\x00", q + q},
		"junk-inside":       {`"x` + h + `"`, `" ` + h + `"`, `"` + h + ` "`, `"` + h + `0"`, `"0x` + h + `"`, `"` + h + h + `"`, `"\x00` + h + `"`, `"` + h + `\x00"`},
		"quote-missing":     {h, `"` + h, h + `"`, `""`, `"`, ``, `" "`},
	}
}

func sortedKeys(m map[string][]string) []string {
	ks := make([]string, 0, len(m))
	for k := range m {
		ks = append(ks, k)
	}
	sort.Strings(ks)
	return ks
}

func runVariants(c *vh.Ctx, mk func(kind, s string) Case, m map[string][]string) {
	for _, k := range sortedKeys(m) {
		for _, v := range m[k] {
			run(c, mk("struct/"+k, v))
		}
	}
}

// one address and one text per type: all structural variants, and the insertion and
// deletion of one character at every position
func sweepStructural(c *vh.Ctx, r *vh.Rand, everyPosition bool) {
	sp, vw := validKey(r, r.Chance(1, 4)), validKey(r, false)
	addr := common.Address{PublicSpendKey: sp, PublicViewKey: vw}.String()
	mkA := func(kind, s string) Case { return Case{Op: "addrparse", Kind: kind, In: hx([]byte(s))} }
	runVariants(c, mkA, addrVariants(r, addr))
	if everyPosition {
		for pos := 0; pos <= len(addr); pos++ {
			ins := []byte{alphabet58[r.Intn(58)], '1', addr[min(pos, len(addr)-1)]}[r.Intn(3)]
			run(c, mkA("struct/insert", addr[:pos]+string(ins)+addr[pos:]))
			if pos < len(addr) {
				run(c, mkA("struct/delete", addr[:pos]+addr[pos+1:]))
			}
		}
	}
	for _, typ := range []string{"key", "hash", "sig", "cosi"} {
		h := hx(r.Bytes(sizeOf(typ)))
		mkJ := func(kind, s string) Case { return Case{Op: "parsejson", Kind: kind, Typ: typ, In: hx([]byte(s))} }
		runVariants(c, mkJ, jsonVariants(h))
		if typ == "key" || typ == "hash" {
			mkT := func(kind, s string) Case { return Case{Op: "parse", Kind: kind, Typ: typ, In: hx([]byte(s))} }
			runVariants(c, mkT, textVariants(h))
			if everyPosition {
				for pos := 0; pos <= len(h); pos += 1 {
					run(c, mkT("struct/insert", h[:pos]+string("0123456789abcdefABCDEF"[r.Intn(22)])+h[pos:]))
					if pos < len(h) {
						run(c, mkT("struct/delete", h[:pos]+h[pos+1:]))
					}
				}
			}
		}
		if everyPosition {
			for i := 0; i < 16; i++ {
				pos := r.Intn(len(h) + 1)
				run(c, mkJ("struct/insert", `"`+h[:pos]+string("0123456789abcdef\" "[r.Intn(18)])+h[pos:]+`"`))
				if pos < len(h) {
					run(c, mkJ("struct/delete", `"`+h[:pos]+h[pos+1:]+`"`))
				}
			}
		}
	}
}

func genB58(c *vh.Ctx) {
	r := c.Rng
	switch r.Intn(9) {
	case 0: // bytes with leading zeros
		b := append(make([]byte, r.Intn(5)), r.Bytes(r.Intn(40))...)
		run(c, Case{Op: "b58enc", Kind: "leading-zeros", In: hx(b)})
	case 1: // lengths around the 10-digit chunks of the implementation
		run(c, Case{Op: "b58enc", Kind: "random", In: hx(r.Bytes(r.Intn(80)))})
	case 2: // numbers around powers of 58^10
		k := r.Range(1, 6)
		v := new(big.Int).Exp(big.NewInt(58), big.NewInt(int64(10*k)), nil)
		v.Add(v, big.NewInt(int64(r.Range(-2, 2))))
		run(c, Case{Op: "b58enc", Kind: "chunk-boundary", In: hx(v.Bytes())})
	case 3: // text over the alphabet, with leading '1's
		s := append(bytes.Repeat([]byte{'1'}, r.Intn(5)), randAlpha(r, r.Intn(50))...)
		run(c, Case{Op: "b58dec", Kind: "alphabet", In: hx(s)})
	case 4: // text of only '1's / digit-zero runs inside
		s := bytes.Repeat([]byte{'1'}, r.Intn(25))
		if r.Bool() {
			s = append(s, randAlpha(r, 3)...)
			s = append(s, bytes.Repeat([]byte{'1'}, r.Intn(12))...)
		}
		run(c, Case{Op: "b58dec", Kind: "ones", In: hx(s)})
	case 5: // one character outside the alphabet
		s := randAlpha(r, r.Range(1, 40))
		bad := []byte("0OIl +/_-\x00\xff\xc3\x7f")
		s[r.Intn(len(s))] = bad[r.Intn(len(bad))]
		run(c, Case{Op: "b58dec", Kind: "invalid-char", In: hx(s)})
	case 6:
		run(c, Case{Op: "b58dec", Kind: "random-bytes", In: hx(r.Bytes(r.Intn(12)))})
	case 7: // one character replaced by a non-ASCII rune / invalid UTF-8
		s := append(bytes.Repeat([]byte{'1'}, r.Intn(3)), randAlpha(r, r.Range(1, 40))...)
		pos, k := r.Intn(len(s)), r.Intn(nonASCIIKinds)
		run(c, Case{Op: "b58dec", Kind: "rune/" + kindName[k], In: hx(replaceAt(s, pos, nonASCII(r, s[pos], k)))})
	default: // decode what encode printed
		run(c, Case{Op: "b58dec", Kind: "printed", In: hx([]byte(base58.Encode(r.Bytes(r.Intn(70)))))})
	}
}

func validKey(r *vh.Rand, leadingZero bool) crypto.Key {
	for {
		k := crypto.NewKeyFromSeed(r.Bytes(64)).Public()
		if !leadingZero || k[0] == 0 {
			return k
		}
	}
}

// a text with a correct checksum over an arbitrary payload
func checksummed(payload []byte) string {
	n := len(payload)
	if n > 64 {
		n = 64
	}
	ck := sha3.Sum256(append([]byte("XIN"), payload[:n]...))
	return "XIN" + refB58Encode(append(append([]byte{}, payload...), ck[:4]...))
}

func genAddr(c *vh.Ctx) {
	r := c.Rng
	sp, vw := validKey(r, r.Chance(1, 12)), validKey(r, false)
	printed := common.Address{PublicSpendKey: sp, PublicViewKey: vw}.String()
	mut := func(kind string, s string) { run(c, Case{Op: "addrparse", Kind: kind, In: hx([]byte(s))}) }
	switch r.Intn(15) {
	case 0:
		run(c, Case{Op: "addrprint", Kind: "valid", In: hx(sp[:]), In2: hx(vw[:])})
	case 1:
		mut("printed", printed)
	case 2, 3: // single-character substitution by another alphabet character
		b := []byte(printed)
		p := r.Intn(len(b))
		for {
			ch := alphabet58[r.Intn(58)]
			if ch != b[p] {
				b[p] = ch
				break
			}
		}
		mut("substitute", string(b))
	case 4: // substitution by a look-alike / foreign character
		b := []byte(printed)
		bad := []byte("0OIl +\xc3")
		b[r.Intn(len(b))] = bad[r.Intn(len(bad))]
		mut("foreign-char", string(b))
	case 5: // deletion / insertion
		b := []byte(printed)
		p := r.Intn(len(b))
		if r.Bool() {
			b = append(b[:p], b[p+1:]...)
		} else {
			b = append(b[:p], append([]byte{alphabet58[r.Intn(58)]}, b[p:]...)...)
		}
		mut("indel", string(b))
	case 6: // extra leading '1' after the prefix / removed one (the leading-zero rule)
		mut("extra-one", "XIN1"+printed[3:])
	case 7: // prefix variants
		mut("prefix", []string{"XIM", "xin", "", "XI", "XINXIN"}[r.Intn(5)]+printed[3:])
	case 8: // correct checksum over keys that are not valid points
		k1, k2 := sp[:], vw[:]
		if r.Bool() {
			k1 = r.Bytes(32)
		} else {
			k2 = r.Bytes(32)
		}
		mut("bad-point", checksummed(append(append([]byte{}, k1...), k2...)))
	case 9: // correct checksum, wrong payload length
		n := []int{0, 31, 63, 65, 96}[r.Intn(5)]
		mut("bad-length", checksummed(r.Bytes(n)))
	case 10: // print of arbitrary (mostly invalid) keys
		run(c, Case{Op: "addrprint", Kind: "arbitrary", In: hx(r.Bytes(32)), In2: hx(r.Bytes(32))})
	case 11: // case flip of one character
		b := []byte(printed)
		p := r.Intn(len(b))
		b[p] ^= 0x20
		mut("case-flip", string(b))
	case 12: // checksum bytes altered
		payload := append(append([]byte{}, sp[:]...), vw[:]...)
		ck := sha3.Sum256(append([]byte("XIN"), payload...))
		ck[r.Intn(4)] ^= byte(r.Range(1, 255))
		mut("bad-checksum", "XIN"+refB58Encode(append(payload, ck[:4]...)))
	case 13: // one character (prefix included) replaced by a non-ASCII rune / invalid UTF-8
		b := []byte(printed)
		pos, k := r.Intn(len(b)), r.Intn(nonASCIIKinds)
		if r.Chance(1, 4) {
			pos = r.Intn(13) // prefix and first base58 chunk
		}
		mut("rune/"+kindName[k], string(replaceAt(b, pos, nonASCII(r, b[pos], k))))
	default:
		mut("random", "XIN"+string(randAlpha(r, r.Range(80, 100))))
	}
}

func genText(c *vh.Ctx) {
	r := c.Rng
	typ := []string{"key", "hash", "sig", "cosi"}[r.Intn(4)]
	size := sizeOf(typ)
	val := r.Bytes(size)
	mask := uint64(0)
	body := val
	if typ == "cosi" {
		body = val[:64]
		mask = r.U64() >> uint(r.Intn(64))
	}
	if r.Chance(1, 4) {
		run(c, Case{Op: "print", Typ: typ, In: hx(body), Mask: mask})
		return
	}
	txt := []byte(hx(val))
	kind := "lower"
	switch r.Intn(10) {
	case 0:
		txt, kind = []byte(strings.ToUpper(string(txt))), "upper"
	case 1:
		for i := range txt {
			if r.Bool() {
				txt[i] = strings.ToUpper(string(txt[i]))[0]
			}
		}
		kind = "mixed-case"
	case 2:
		d := []int{-2, -1, 1, 2, -len(txt)}[r.Intn(5)]
		if d < 0 {
			txt = txt[:len(txt)+d]
		} else {
			txt = append(txt, []byte("ab")[:d]...)
		}
		kind = "length"
	case 3:
		bad := []byte("gGxX -_\x00\xc3\\\"`'\n\r")
		txt[r.Intn(len(txt))] = bad[r.Intn(len(bad))]
		kind = "bad-char"
	}
	form := "parse"
	if typ == "sig" || typ == "cosi" || r.Bool() {
		form = "parsejson"
		q := []string{`"`, `"`, `"`, "`", "'", ""}[r.Intn(6)]
		in := []byte(q + string(txt) + q)
		switch r.Intn(12) {
		case 0:
			if len(in) > 0 {
				in = in[:len(in)-1]
			}
			kind += "+unterminated"
		case 1:
			in = append(in, ' ')
			kind += "+trailing"
		case 2:
			if len(txt) > 0 {
				in = []byte(`"\u00` + hx(txt[:1]) + string(txt[1:]) + `"`) // escaped first character
				kind += "+escape"
			}
		case 3:
			if q == "`" && len(txt) >= 3 {
				in = []byte("`" + string(txt[:3]) + "\r" + string(txt[3:]) + "`")
				kind += "+cr"
			}
		}
		kind += "/" + map[string]string{`"`: "dq", "`": "bq", "'": "sq", "": "bare"}[q]
		txt = in
	}
	run(c, Case{Op: form, Kind: kind, Typ: typ, In: hx(txt)})
}

var indexes = []uint64{0, 1, 2, 127, 128, 255, 256, 16383, 16384, 1<<32 - 1, 1 << 32, 1<<32 + 1, 1<<63 - 1, 1 << 63, 1<<64 - 1}

func genGhost(c *vh.Ctx) {
	r := c.Rng
	i := indexes[r.Intn(len(indexes))]
	kind := "boundary-index"
	switch r.Intn(3) {
	case 0:
		i, kind = uint64(r.U64()>>32), "index<2^32"
	case 1:
		i, kind = r.U64()>>uint(r.Intn(64)), "index<2^64"
	}
	run(c, Case{Op: "ghost", Kind: kind, R: hx(r.Bytes(64)), A: hx(r.Bytes(64)), B: hx(r.Bytes(64)), I: i})
}

func corpus(c *vh.Ctx) {
	for _, b := range []string{"", "00", "0000", "01", "ff", "00ff", "39", "3a", "0000000000000000000000", "ffffffffffffffffffffffffffffffff"} {
		run(c, Case{Op: "b58enc", Kind: "corpus", In: b})
	}
	for _, s := range []string{"", "1", "11", "2", "12", "21", "z", "1z1", "0", "O", "I", "l", " ", "1 ", "é", "11111111111", "zzzzzzzzzzz", "5Q", "5R"} {
		run(c, Case{Op: "b58dec", Kind: "corpus", In: hx([]byte(s))})
	}
	for _, s := range []string{"\u0131", "1\u0131", "\u0131\u0131z", "\u0132", "2\u0100", "\xc4", "\xc0\xb1", "zzzzzzzzz\u0131", "zzzzzzzzz\u0131z", "\U00010031", "\u00b1", "1\xff1"} {
		run(c, Case{Op: "b58dec", Kind: "corpus-rune", In: hx([]byte(s))})
	}
	for _, s := range []string{"\u0158IN1", "XIN\u0131", "X\u0149N11"} {
		run(c, Case{Op: "addrparse", Kind: "corpus-rune", In: hx([]byte(s))})
	}
	for _, s := range []string{"", "XIN", "XIN1", "XI", "xin1", "XIN0"} {
		run(c, Case{Op: "addrparse", Kind: "corpus", In: hx([]byte(s))})
	}
	z := strings.Repeat("00", 32)
	for _, t := range []string{"key", "hash"} {
		for _, s := range []string{"", "0", "00", z, strings.ToUpper(strings.Repeat("ab", 32)), strings.Repeat("ab", 32) + "0", "0x" + strings.Repeat("ab", 31)} {
			run(c, Case{Op: "parse", Kind: "corpus", Typ: t, In: hx([]byte(s))})
		}
	}
	for _, t := range []string{"key", "hash", "sig", "cosi"} {
		n := sizeOf(t)
		for _, s := range []string{"", `"`, `""`, "``", "''", `"` + strings.Repeat("Ab", n) + `"`, "`" + strings.Repeat("ab", n) + "`", "'" + strings.Repeat("ab", n) + "'",
			"null", strings.Repeat("ab", n), `"` + strings.Repeat("ab", n) + `"x`, `"` + strings.Repeat("ab", n-1) + "\n\n" + `"`} {
			run(c, Case{Op: "parsejson", Kind: "corpus", Typ: t, In: hx([]byte(s))})
		}
	}
	run(c, Case{Op: "print", Typ: "cosi", In: strings.Repeat("00", 64), Mask: 0})
	run(c, Case{Op: "print", Typ: "cosi", In: strings.Repeat("ff", 64), Mask: 1<<64 - 1})
	run(c, Case{Op: "print", Typ: "cosi", In: strings.Repeat("5a", 64), Mask: 10})
	for _, i := range indexes {
		run(c, Case{Op: "ghost", Kind: "corpus", R: strings.Repeat("01", 64), A: strings.Repeat("02", 64), B: strings.Repeat("03", 64), I: i})
	}
}

func main() {
	c := vh.Start("C32")
	c.Rep.Rule = "one SplitMix64 stream. ghost keys: random 64-byte seeds for r, a, b, output indexes at the varint/32/64-bit boundaries and random below 2^32 and " +
		"2^64, through DeriveGhostPublicKey/DeriveGhostPrivateKey/ViewGhostOutputKey; base58: random byte strings (leading zeros, lengths across the 10-digit " +
		"chunks, numbers at 58^10k±2), texts over the alphabet with leading/inner '1's, texts with one foreign character, random bytes; addresses: printed " +
		"addresses of random valid keys (1/12 with a leading zero byte) and their single-character substitutions, foreign characters, insertions/deletions, " +
		"extra '1', prefix variants, case flips, one character replaced by a non-ASCII rune (U+0080..FF, runes >= U+0100 whose low byte is the original / another alphabet / a foreign byte, astral) or invalid UTF-8 at every position of a printed address, structural edits (junk before the prefix / after the end, doubled prefix or text, prefix case, split, deleted, later in the text, empty body, body only, whitespace and NUL, insertion and deletion of one character at every position; the same around hexadecimal texts and their JSON quotes), a base58 text and hexadecimal texts, wrong checksum, correct checksum over invalid points / wrong lengths; key/hash/signature/collective " +
		"signature: random values printed, hexadecimal texts (lower/upper/mixed case, wrong length, bad character) in plain and JSON form (double, back, single " +
		"quotes, bare, unterminated, trailing byte, escape, carriage return). Non-trivial = the input reaches the codec core (valid alphabet / 68-byte payload / " +
		"accepted text / derivation on valid keys); distinct by input."
	if c.Replay != "" {
		var cs Case
		c.ReplayCase(&cs)
		run(c, cs)
		c.Finish()
		return
	}
	corpus(c)
	sweepStructural(c, vh.NewRand(32, "C32-corpus-structural"), false) // fixed stream: part of the corpus
	for i := c.Scale(1, 20); i > 0; i-- {
		sweepNonASCII(c)
		sweepStructural(c, c.Rng, true)
	}
	n := c.Scale(350, 12000)
	for i := 0; i < n; i++ {
		genB58(c)
		genAddr(c)
		genText(c)
		if i%2 == 0 {
			genGhost(c)
		}
	}
	c.Finish()
}
