// C14 harness: aggregate transaction signatures (crypto/aggregation.go).  The
// harness owns every private key, runs the REAL AggregateSign / AggregateVerify,
// sends the scenario in discrete-log form to the Coq model (Run/C14.v) and checks
// the implementation directly against the property text: a signature made for a
// sorted signer set verifies for exactly that key vector, signer set and message;
// it fails when any of them changes, when the signers are unsorted, duplicated
// or out of range, and a signature built from a subset of the private keys
// (including rogue-key cancellation) does not verify for a larger signer set.
package main

import (
	"encoding/hex"
	"fmt"
	"math/big"
	"sort"

	"github.com/MixinNetwork/mixin/crypto"
	"verifharness/cmd/c13/cosih"
	"verifharness/vh"
)

type Case struct {
	N       int    `json:"n"`
	KeySeed uint64 `json:"key_seed"`
	Signers []int  `json:"signers"` // sorted, in range: the set the signature is made for
	SeedLen int    `json:"seed_len"`
	Seed    uint64 `json:"seed"`
	Msg     string `json:"msg"`
	Kind    string `json:"kind"`
	Aux     int    `json:"aux"`
	Bit     int    `json:"bit"`
	Model   bool   `json:"model"` // sent to the Coq model (false: oracle only, large vectors)
}

func flip(b []byte, bit int) { b[(bit/8)%len(b)] ^= 1 << uint(bit%8) }

func ints(v []int) string {
	el := make([]string, len(v))
	for i, x := range v {
		el[i] = vh.ZI(int64(x))
	}
	return vh.List(el, "Z")
}

func resU(pan bool, err error) string {
	if pan {
		return vh.Pan("unit")
	}
	if err != nil {
		return vh.Err("unit")
	}
	return vh.Ok("tt")
}

type verifyVariant struct {
	name    string
	keys    []*crypto.Key // nil: the scenario's vector
	kz      []*big.Int
	rKnown  *big.Int // nil: the signature's own R
	sig     crypto.Signature
	signers []int
	msg     crypto.Hash
	wantOK  bool
}

type world struct {
	c       *vh.Ctx
	cs      Case
	privs   []crypto.Key
	kz      []*big.Int
	publics []*crypto.Key
	T       *cosih.Tables
	garbage crypto.Key
}

func (w *world) fail(sig, what string) { w.c.Fail(sig, what, w.cs) }

func newWorld(c *vh.Ctx, cs Case) *world {
	w := &world{c: c, cs: cs, T: cosih.NewTables()}
	kr := vh.NewRand(cs.KeySeed, "c14-keys")
	w.garbage = cosih.Garbage(kr)
	w.T.PutEnc(big.NewInt(-1), w.garbage[:])
	sel := map[int]bool{}
	for _, i := range cs.Signers {
		sel[i] = true
	}
	for i := 0; i < cs.N; i++ {
		k, z := cosih.SeedKey(kr)
		p := k.Public()
		w.privs = append(w.privs, k)
		w.kz = append(w.kz, z)
		w.publics = append(w.publics, &p)
	}
	return w
}

// sign runs AggregateSign and returns the model observation term.
func sign(privs []*crypto.Key, publics []*crypto.Key, signers []int, seed []byte, msg crypto.Hash) (*crypto.Signature, error, bool, string) {
	var sig *crypto.Signature
	var err error
	pan, _ := vh.Catch(func() { sig, err = crypto.AggregateSign(privs, publics, signers, seed, msg) })
	obs := vh.Err("(N * Z)")
	if pan {
		obs = vh.Pan("(N * Z)")
	} else if err == nil {
		obs = vh.Ok("(" + cosih.NBytes(sig[:32]) + ", " + cosih.ZB(cosih.LEInt(sig[32:])) + ")")
	}
	return sig, err, pan, obs
}

func sortedValid(signers []int, n int) bool {
	if len(signers) == 0 {
		return false
	}
	prev := -1
	for _, i := range signers {
		if i <= prev || i >= n {
			return false
		}
		prev = i
	}
	return true
}

func run(c *vh.Ctx, cs Case) []*cosih.MCase {
	w := newWorld(c, cs)
	key := fmt.Sprintf("%+v", cs)
	sr := vh.NewRand(cs.Seed, "c14-seed")
	seed := sr.Bytes(cs.SeedLen)
	var msg crypto.Hash
	mb, _ := hex.DecodeString(cs.Msg)
	copy(msg[:], mb)
	var out []*cosih.MCase

	publics := w.publics
	kz := w.kz
	signers := cs.Signers
	privs := make([]*crypto.Key, len(signers))
	privZ := make([]*big.Int, len(signers))
	for j, i := range signers {
		privs[j] = &w.privs[i]
		privZ[j] = w.kz[i]
	}

	// ---- scenario-level changes to what is signed ---------------------------------
	signOK := true
	switch cs.Kind {
	case "rogue":
		// keys[1] = x.B - K_0; the attacker knows x only and signs as the single key x.B
	case "bad-key":
		j := cs.Aux % cs.N
		publics = append([]*crypto.Key{}, publics...)
		kz = append([]*big.Int{}, kz...)
		switch cs.Bit % 3 {
		case 0:
			g := w.garbage
			publics[j], kz[j] = &g, big.NewInt(-1)
		case 1:
			publics[j], kz[j] = nil, big.NewInt(-1)
		case 2:
			var id crypto.Key
			id[0] = 1
			publics[j], kz[j] = &id, big.NewInt(0)
			w.T.PutEnc(big.NewInt(0), id[:])
		}
		for _, i := range signers {
			if i == j {
				signOK = false
			}
		}
	case "priv-mismatch":
		j := cs.Aux % len(signers)
		o := (signers[j] + 1 + cs.Bit%max(1, cs.N-1)) % cs.N
		if o != signers[j] {
			privs[j], privZ[j] = &w.privs[o], w.kz[o]
			signOK = false
		}
	case "priv-count":
		if cs.Aux%2 == 0 || len(privs) == 0 {
			privs = append(privs, &w.privs[0])
			privZ = append(privZ, w.kz[0])
		} else {
			privs, privZ = privs[:len(privs)-1], privZ[:len(privZ)-1]
		}
		signOK = false
	case "priv-noncanonical":
		j := cs.Aux % len(signers)
		v := new(big.Int).Add(w.kz[signers[j]], cosih.L)
		k := crypto.Key(cosih.LE32(v))
		privs[j], privZ[j] = &k, v
		signOK = false
	case "priv-nil":
		j := cs.Aux % len(signers)
		privs[j], privZ[j] = nil, big.NewInt(-1)
		signOK = false
	case "seed-short":
		signOK = false
	}
	if cs.SeedLen < 32 {
		signOK = false
	}
	for _, i := range signers {
		if i < len(kz) {
			if kz[i].Sign() > 0 {
				w.T.PutPoint(kz[i])
			}
		}
	}

	sig, err, pan, obs := sign(privs, publics, signers, seed, msg)
	if pan {
		w.fail("sign-panic", "AggregateSign panicked")
	} else if (err == nil) != (signOK && sortedValid(signers, cs.N)) {
		w.fail("sign-decision", fmt.Sprintf("AggregateSign accepted=%v for kind %s (sorted in-range signers=%v): %v", err == nil, cs.Kind, sortedValid(signers, cs.N), err))
	}

	// ---- verification variants -------------------------------------------------------
	var vars []verifyVariant
	if err == nil && !pan {
		base := verifyVariant{name: "same", sig: *sig, signers: signers, msg: msg, wantOK: true}
		vars = append(vars, base)
		addv := func(name string, f func(v *verifyVariant)) {
			v := base
			v.name = name
			v.wantOK = false
			f(&v)
			vars = append(vars, v)
		}
		unselected := func() []int {
			in := map[int]bool{}
			for _, i := range signers {
				in[i] = true
			}
			var u []int
			for i := 0; i < cs.N; i++ {
				if !in[i] {
					u = append(u, i)
				}
			}
			return u
		}()
		subKeys := func(v *verifyVariant, j int) {
			v.keys = append([]*crypto.Key{}, publics...)
			v.kz = append([]*big.Int{}, kz...)
			nk, nz := cosih.SeedKey(vh.NewRand(uint64(cs.Bit)+uint64(j)<<20, "c14-sub"))
			np := nk.Public()
			v.keys[j], v.kz[j] = &np, nz
			w.T.PutPoint(nz)
		}
		switch cs.Kind {
		case "msg":
			addv("msg", func(v *verifyVariant) { flip(v.msg[:], cs.Bit) })
		case "sig-s-bit":
			addv("sig-s-bit", func(v *verifyVariant) { flip(v.sig[32:], cs.Bit) })
		case "sig-r-garbage":
			addv("sig-r-garbage", func(v *verifyVariant) { copy(v.sig[:32], w.garbage[:]); v.rKnown = big.NewInt(-1) })
		case "sig-r-other":
			addv("sig-r-other", func(v *verifyVariant) {
				_, z := cosih.SeedKey(vh.NewRand(uint64(cs.Bit), "c14-r"))
				e := cosih.Enc(z)
				copy(v.sig[:32], e[:])
				v.rKnown = z
				w.T.PutPoint(z)
			})
		case "key-sub":
			addv("key-sub", func(v *verifyVariant) { subKeys(v, signers[cs.Aux%len(signers)]) })
		case "key-unselected-sub":
			if len(unselected) > 0 {
				addv("key-unselected-sub", func(v *verifyVariant) { subKeys(v, unselected[cs.Aux%len(unselected)]); v.wantOK = true })
			}
		case "key-swap":
			if len(signers) >= 2 { // two selected keys exchanged: same set of keys, other positions
				addv("key-swap", func(v *verifyVariant) {
					a, b := signers[0], signers[len(signers)-1]
					v.keys = append([]*crypto.Key{}, publics...)
					v.kz = append([]*big.Int{}, kz...)
					v.keys[a], v.keys[b] = v.keys[b], v.keys[a]
					v.kz[a], v.kz[b] = v.kz[b], v.kz[a]
				})
			}
		case "signers-subset":
			if len(signers) >= 2 {
				addv("signers-subset", func(v *verifyVariant) {
					j := cs.Aux % len(signers)
					v.signers = append(append([]int{}, signers[:j]...), signers[j+1:]...)
				})
			}
		case "signers-superset", "honest":
			// a signature built with the private keys of S offered for S' > S
			if len(unselected) > 0 {
				addv("signers-superset", func(v *verifyVariant) {
					s2 := append(append([]int{}, signers...), unselected[cs.Aux%len(unselected)])
					sort.Ints(s2)
					v.signers = s2
					for _, i := range s2 {
						if kz[i].Sign() > 0 {
							w.T.PutPoint(kz[i])
						}
					}
				})
			}
		case "signers-shift":
			if len(unselected) > 0 {
				addv("signers-shift", func(v *verifyVariant) {
					s2 := append([]int{}, signers...)
					s2[cs.Aux%len(s2)] = unselected[cs.Bit%len(unselected)]
					sort.Ints(s2)
					v.signers = s2
					for _, i := range s2 {
						if kz[i].Sign() > 0 {
							w.T.PutPoint(kz[i])
						}
					}
				})
			}
		case "unsorted":
			if len(signers) >= 2 {
				addv("unsorted", func(v *verifyVariant) {
					s2 := append([]int{}, signers...)
					j := cs.Aux % (len(s2) - 1)
					s2[j], s2[j+1] = s2[j+1], s2[j]
					v.signers = s2
				})
			}
		case "duplicate":
			addv("duplicate", func(v *verifyVariant) {
				j := cs.Aux % len(signers)
				s2 := append(append(append([]int{}, signers[:j+1]...), signers[j]), signers[j+1:]...)
				v.signers = s2
			})
		case "out-of-range":
			addv("out-of-range", func(v *verifyVariant) {
				extra := []int{cs.N, cs.N + 1 + cs.Bit, 1 << 20}[cs.Aux%3]
				v.signers = append(append([]int{}, signers...), extra)
			})
			addv("negative", func(v *verifyVariant) { v.signers = append([]int{-1 - cs.Bit%3}, signers...) })
		case "empty":
			addv("empty", func(v *verifyVariant) { v.signers = []int{} })
		}
	}
	var vops []string
	for _, v := range vars {
		keys := publics
		vkz := kz
		kt := vh.None("(list Z)")
		if v.keys != nil {
			keys, vkz = v.keys, v.kz
			kt = vh.Some(cosih.ZList(vkz))
		}
		var ve error
		sg := v.sig
		p, _ := vh.Catch(func() { ve = crypto.AggregateVerify(&sg, keys, v.signers, v.msg) })
		rt := vh.None("Z")
		if v.rKnown != nil {
			rt = vh.Some(cosih.ZB(v.rKnown))
		}
		vops = append(vops, vh.App("VOp", kt, rt, cosih.ZB(cosih.LEInt(v.sig[32:])), ints(v.signers), cosih.NBytes(v.msg[:]), resU(p, ve)))
		if p {
			w.fail("verify-panic", "AggregateVerify panicked ("+v.name+")")
			continue
		}
		if (ve == nil) != v.wantOK {
			if v.wantOK {
				w.fail("verify-rejects", fmt.Sprintf("AggregateVerify rejected the signature for its own key vector, signer set and message (%s): %v", v.name, ve))
			} else {
				w.fail("verify-accepts-"+v.name, fmt.Sprintf("AggregateVerify accepted a signature for a changed %s (signed for %v, offered for %v)", v.name, signers, v.signers))
			}
		}
	}
	if cs.Model {
		kzT, privT, sT := cosih.ZList(kz), cosih.ZList(privZ), ints(signers)
		seedT, msgT, vT := cosih.BS(seed), cosih.NBytes(msg[:]), vh.List(vops, "vop")
		out = append(out, &cosih.MCase{Kind: cs.Kind, Key: key, Nontrivial: err == nil, JS: cs, T: w.T,
			Build: func(t *cosih.Tables) string {
				return vh.App("CSign", t.EncTerm(), t.HashTerm(), kzT, privT, sT, seedT, msgT, obs, vT)
			}})
	} else {
		c.Case(cs.Kind+"-large", key, err == nil, cs, "")
	}
	return out
}

// signing with a malformed signer list (sorted list perturbed) must be refused
func runBadSign(c *vh.Ctx, cs Case) []*cosih.MCase {
	w := newWorld(c, cs)
	sr := vh.NewRand(cs.Seed, "c14-seed")
	seed := sr.Bytes(cs.SeedLen)
	var msg crypto.Hash
	mb, _ := hex.DecodeString(cs.Msg)
	copy(msg[:], mb)
	signers := append([]int{}, cs.Signers...)
	switch cs.Kind {
	case "sign-unsorted":
		if len(signers) >= 2 {
			j := cs.Aux % (len(signers) - 1)
			signers[j], signers[j+1] = signers[j+1], signers[j]
		} else {
			signers = append(signers, signers[0])
		}
	case "sign-duplicate":
		j := cs.Aux % len(signers)
		signers = append(append(append([]int{}, signers[:j+1]...), signers[j]), signers[j+1:]...)
	case "sign-out-of-range":
		signers = append(signers, []int{cs.N, cs.N + 1 + cs.Bit, 1 << 20}[cs.Aux%3])
	case "sign-negative":
		signers = append([]int{-1}, signers...)
	case "sign-empty":
		signers = []int{}
	}
	privs := make([]*crypto.Key, len(signers))
	privZ := make([]*big.Int, len(signers))
	for j, i := range signers {
		k := i
		if k < 0 || k >= cs.N {
			k = 0
		}
		privs[j], privZ[j] = &w.privs[k], w.kz[k]
		w.T.PutPoint(w.kz[k])
	}
	_, err, pan, obs := sign(privs, w.publics, signers, seed, msg)
	if pan {
		w.fail("sign-panic", "AggregateSign panicked on a malformed signer list")
	} else if err == nil {
		w.fail("sign-accepts-"+cs.Kind[5:], fmt.Sprintf("AggregateSign accepted the signer list %v over %d keys", signers, cs.N))
	}
	kzT, privT, sT := cosih.ZList(w.kz), cosih.ZList(privZ), ints(signers)
	seedT, msgT := cosih.BS(seed), cosih.NBytes(msg[:])
	return []*cosih.MCase{{Kind: cs.Kind, Key: fmt.Sprintf("%+v", cs), Nontrivial: false, JS: cs, T: w.T,
		Build: func(t *cosih.Tables) string {
			return vh.App("CSign", t.EncTerm(), t.HashTerm(), kzT, privT, sT, seedT, msgT, obs, vh.List(nil, "vop"))
		}}}
}

// rogue-key cancellation: keys = [K_v, x.B - K_v, ...]; the attacker holds x
// only and offers its single-key signature for the signer set {0, 1}.
func runRogue(c *vh.Ctx, cs Case) []*cosih.MCase {
	w := newWorld(c, cs)
	sr := vh.NewRand(cs.Seed, "c14-seed")
	seed := sr.Bytes(cs.SeedLen)
	var msg crypto.Hash
	mb, _ := hex.DecodeString(cs.Msg)
	copy(msg[:], mb)
	xk, xz := cosih.SeedKey(sr)
	xp := xk.Public()
	rogueZ := cosih.Mod(new(big.Int).Sub(xz, w.kz[0]))
	re := cosih.Enc(rogueZ)
	rogue := crypto.Key(re)
	victim := []*crypto.Key{w.publics[0], &rogue}
	victimZ := []*big.Int{w.kz[0], rogueZ}
	w.T.PutPoint(xz)
	w.T.PutPoint(w.kz[0])
	w.T.PutPoint(rogueZ)
	// the attacker's own world: the single key x.B
	sig, err, pan, obs := sign([]*crypto.Key{&xk}, []*crypto.Key{&xp}, []int{0}, seed, msg)
	if pan || err != nil {
		w.fail("sign-decision", "single-key AggregateSign failed")
		return nil
	}
	var vops []string
	try := func(name string, keys []*crypto.Key, kz []*big.Int, signers []int, want bool) {
		var ve error
		p, _ := vh.Catch(func() { ve = crypto.AggregateVerify(sig, keys, signers, msg) })
		vops = append(vops, vh.App("VOp", vh.Some(cosih.ZList(kz)), vh.None("Z"), cosih.ZB(cosih.LEInt(sig[32:])), ints(signers), cosih.NBytes(msg[:]), resU(p, ve)))
		if p {
			w.fail("verify-panic", "AggregateVerify panicked ("+name+")")
		} else if (ve == nil) != want {
			w.fail("verify-accepts-rogue", "a signature made with x alone verified for the signer set {victim, x.B - K_victim}: "+name)
		}
	}
	try("own", []*crypto.Key{&xp}, []*big.Int{xz}, []int{0}, true)
	try("cancel", victim, victimZ, []int{0, 1}, false)
	try("rogue-only", victim, victimZ, []int{1}, false)
	// a plain Schnorr signature by x (Key.Sign) offered for the pair: R has a discrete log only the
	// implementation knows, so this one is oracle only
	ps := xk.Sign(msg)
	var ve error
	p, _ := vh.Catch(func() { ve = crypto.AggregateVerify(&ps, victim, []int{0, 1}, msg) })
	if p || ve == nil {
		w.fail("verify-accepts-rogue", "a plain signature by x verified for the signer set {victim, x.B - K_victim}")
	}
	kzT, privT := cosih.ZList([]*big.Int{xz}), cosih.ZList([]*big.Int{xz})
	seedT, msgT, vT := cosih.BS(seed), cosih.NBytes(msg[:]), vh.List(vops, "vop")
	return []*cosih.MCase{{Kind: "rogue", Key: fmt.Sprintf("%+v", cs), Nontrivial: true, JS: cs, T: w.T,
		Build: func(t *cosih.Tables) string {
			return vh.App("CSign", t.EncTerm(), t.HashTerm(), kzT, privT, ints([]int{0}), seedT, msgT, obs, vT)
		}}}
}

// Sequence scenario (process-wide state: the decoded-point cache of
// crypto/point.go).  Step 1 offers one special encoding (small-order, mixed
// order, y >= p) in every input position that decodes a point; step 2, in the
// same process, uses the same encoding in a key slot: forgeries for the signer
// set {x.B, E} by the holder of x alone must be refused whatever step 1 did, and
// CheckKey(E) must answer as before.  The model is stateless: step-2 decisions
// are ordinary model cases.
func runCacheSeq(c *vh.Ctx, cs Case) []*cosih.MCase {
	w := newWorld(c, cs)
	sps := cosih.Specials()
	sp := sps[cs.Aux%len(sps)]
	E := sp.Key
	ez := cosih.SpecialLog(E)
	w.T.PutEnc(ez, E[:])
	sr := vh.NewRand(cs.Seed, "c14-seed")
	seed := sr.Bytes(cs.SeedLen)
	var msg crypto.Hash
	mb, _ := hex.DecodeString(cs.Msg)
	copy(msg[:], mb)

	before := E.CheckKey()
	for _, o := range cosih.PresentEverywhere(E, sr) { // step 1
		if o.Accepted {
			w.fail("special-accepted", fmt.Sprintf("%s accepted the %s encoding %x", o.Pos, sp.Name, E[:]))
		}
	}

	// step 2
	xk, xz := w.privs[0], w.kz[0]
	xp := xk.Public()
	pair := []*crypto.Key{&xp, &E}
	pairZ := []*big.Int{xz, ez}
	var out []*cosih.MCase
	mk := func(kind string, keysZ, privZ []*big.Int, signers []int, obs string, vops []string) {
		kzT, privT, sT := cosih.ZList(keysZ), cosih.ZList(privZ), ints(signers)
		seedT, msgT, vT := cosih.BS(seed), cosih.NBytes(msg[:]), vh.List(vops, "vop")
		out = append(out, &cosih.MCase{Kind: kind, Key: fmt.Sprintf("%s|%+v", kind, cs), Nontrivial: true, JS: cs, T: w.T,
			Build: func(t *cosih.Tables) string {
				return vh.App("CSign", t.EncTerm(), t.HashTerm(), kzT, privT, sT, seedT, msgT, obs, vT)
			}})
	}
	// (a) the attacker's honest one-key signature, offered for signer sets containing E
	sig, err, pan, obs := sign([]*crypto.Key{&xk}, []*crypto.Key{&xp}, []int{0}, seed, msg)
	if pan || err != nil {
		w.fail("sign-decision", "single-key AggregateSign failed")
		return nil
	}
	var vops []string
	try := func(name string, s *crypto.Signature, keys []*crypto.Key, kz []*big.Int, signers []int, want bool) string {
		var ve error
		p, _ := vh.Catch(func() { ve = crypto.AggregateVerify(s, keys, signers, msg) })
		if p {
			w.fail("verify-panic", "AggregateVerify panicked ("+name+")")
		} else if (ve == nil) != want {
			if want {
				w.fail("verify-rejects", "AggregateVerify rejected a signature because of an unselected key ("+name+")")
			} else {
				w.fail("verify-accepts-special-key", fmt.Sprintf("after the %s encoding %x was seen elsewhere, AggregateVerify accepted it in a signer slot (%s)", sp.Name, E[:], name))
			}
		}
		return vh.App("VOp", vh.Some(cosih.ZList(kz)), vh.None("Z"), cosih.ZB(cosih.LEInt(s[32:])), ints(signers), cosih.NBytes(msg[:]), resU(p, ve))
	}
	vops = append(vops, try("one-key signature for {x.B, E}", sig, pair, pairZ, []int{0, 1}, false))
	vops = append(vops, try("one-key signature for {E}", sig, pair, pairZ, []int{1}, false))
	vops = append(vops, try("E present but not selected", sig, pair, pairZ, []int{0}, true))
	mk("seq-cache", []*big.Int{xz}, []*big.Int{xz}, []int{0}, obs, vops)
	// (b) signing for {x.B, E} with x and the zero scalar (0.B is the neutral element)
	var zero crypto.Key
	fsig, ferr, fpan, fobs := sign([]*crypto.Key{&xk, &zero}, pair, []int{0, 1}, seed, msg)
	if fpan {
		w.fail("sign-panic", "AggregateSign panicked with a special encoding in a signer slot")
	} else if ferr == nil {
		w.fail("sign-accepts-special-key", fmt.Sprintf("after the %s encoding %x was seen elsewhere, AggregateSign accepted it in a signer slot", sp.Name, E[:]))
		var ve error
		vh.Catch(func() { ve = crypto.AggregateVerify(fsig, pair, []int{0, 1}, msg) })
		if ve == nil {
			w.fail("verify-accepts-forgery", fmt.Sprintf("a signature made with one private key verifies for the two-signer set {x.B, %s}", sp.Name))
		}
	}
	mk("seq-cache-sign", pairZ, []*big.Int{xz, big.NewInt(0)}, []int{0, 1}, fobs, nil)

	after := E.CheckKey()
	if before != after {
		w.fail("checkkey-changed", fmt.Sprintf("CheckKey(%x) answered %v before and %v after the encoding was seen in other positions", E[:], before, after))
	} else if after {
		w.fail("special-accepted", fmt.Sprintf("CheckKey accepted the %s encoding %x", sp.Name, E[:]))
	}
	return out
}

func dispatch(c *vh.Ctx, cs Case) []*cosih.MCase {
	switch {
	case cs.Kind == "seq-cache":
		return runCacheSeq(c, cs)
	case cs.Kind == "rogue":
		return runRogue(c, cs)
	case len(cs.Kind) > 5 && cs.Kind[:5] == "sign-":
		return runBadSign(c, cs)
	}
	return run(c, cs)
}

var kinds = []string{"honest", "honest", "msg", "sig-s-bit", "sig-r-garbage", "sig-r-other", "key-sub", "key-unselected-sub",
	"key-swap", "signers-subset", "signers-superset", "signers-superset", "signers-shift", "unsorted", "duplicate", "out-of-range",
	"empty", "bad-key", "priv-mismatch", "priv-count", "priv-noncanonical", "priv-nil", "seed-short", "rogue", "rogue",
	"sign-unsorted", "sign-duplicate", "sign-out-of-range", "sign-negative", "sign-empty"}

func gen(r *vh.Rand, kind string) Case {
	cs := Case{Kind: kind, KeySeed: r.U64(), Seed: r.U64(), Aux: r.Intn(1 << 20), Bit: r.Intn(256),
		Msg: hex.EncodeToString(r.Bytes(32)), SeedLen: r.Range(32, 64), Model: true}
	// vector size 1..300; the model gets the small and a few medium ones
	var maxSigners int
	switch r.Intn(10) {
	case 0:
		cs.N, maxSigners = r.Range(100, 300), 300
		cs.Model = false
	case 1:
		cs.N, maxSigners = r.Range(17, 100), 4
	case 2:
		cs.N, maxSigners = 1, 1
	default:
		cs.N, maxSigners = r.Range(2, 16), 6
	}
	if kind == "seed-short" {
		cs.SeedLen = r.Intn(32)
	}
	if kind == "rogue" {
		cs.N, cs.Model = max(cs.N, 2), true
		if cs.N > 16 {
			cs.N = 2
		}
	}
	want := r.Range(1, min(cs.N, maxSigners))
	pick := map[int]bool{}
	for len(pick) < want {
		pick[r.Intn(cs.N)] = true
	}
	for i := range pick {
		cs.Signers = append(cs.Signers, i)
	}
	sort.Ints(cs.Signers)
	return cs
}

func main() {
	c := vh.Start("C14")
	c.Rep.Rule = "one scenario per boundary kind first, then random scenarios from one SplitMix64 stream: key vector of 1..300 keys " +
		"(NewKeyFromSeed; vectors above 100 keys with up to 300 signers are oracle-only), random sorted signer subset, seed of 32..64 bytes, " +
		"random message; AggregateSign, then AggregateVerify on the same inputs and on one changed input per scenario: message bit, S bit, R " +
		"garbage / other point, selected / unselected key replaced, two selected keys swapped, signer removed / added (signature of S offered " +
		"for S' > S) / exchanged, unsorted, duplicated, out-of-range, negative, empty signer list (also given to AggregateSign), undecodable / " +
		"nil / identity key, wrong / missing / extra / non-canonical / nil private key, short seed, rogue-key cancellation (x.B - K_victim); " +
		"sequence scenarios: every small-order / mixed-order / y>=p encoding first offered in all point-decoding positions, then used in a signer slot. " +
		"Non-trivial = a signature was produced; distinct by the whole scenario."
	var all []*cosih.MCase
	if c.Replay != "" {
		var cs Case
		c.ReplayCase(&cs)
		all = dispatch(c, cs)
	} else {
		cr := c.Rng.Fork("corpus")
		for _, k := range kinds {
			cs := gen(cr, k)
			if !cs.Model {
				cs.N, cs.Model = 5, true
				cs.Signers = []int{0, 2, 4}
			}
			all = append(all, dispatch(c, cs)...)
		}
		// sequences over the process-wide point cache: one per special encoding
		for i := range cosih.Specials() {
			q := gen(cr, "honest")
			q.Kind, q.N, q.Signers, q.Model, q.Aux = "seq-cache", 1, []int{0}, true, i
			all = append(all, dispatch(c, q)...)
		}
		// boundary: the last index of a 300-key vector; every key signing (oracle only)
		b := gen(cr, "honest")
		b.N, b.Signers, b.Model = 300, []int{0, 299}, true
		all = append(all, dispatch(c, b)...)
		b = gen(cr, "signers-subset")
		b.N, b.Model, b.Signers = 300, false, nil
		for i := 0; i < 300; i++ {
			b.Signers = append(b.Signers, i)
		}
		all = append(all, dispatch(c, b)...)
		n := c.Scale(140, 4000)
		for i := 0; i < n; i++ {
			all = append(all, dispatch(c, gen(c.Rng, kinds[c.Rng.Intn(len(kinds))]))...)
		}
	}
	cosih.Emit(c, "C14", all)
	c.Finish()
}
