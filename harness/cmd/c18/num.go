package main

import (
	"fmt"
	"math/big"
)

// num32 prints a 32-byte big-endian value as a Coq N: a plain literal when it is
// small, otherwise five 52-bit words for Model/RoundNum.v hN.
func num32(b []byte) string {
	v := new(big.Int).SetBytes(b)
	if v.BitLen() <= 62 {
		return v.String() + "%N"
	}
	mask := new(big.Int).SetUint64(1<<52 - 1)
	w := make([]uint64, 5)
	for i := 4; i >= 0; i-- {
		w[i] = new(big.Int).And(v, mask).Uint64()
		v.Rsh(v, 52)
	}
	return fmt.Sprintf("(hN %d%%uint63 %d%%uint63 %d%%uint63 %d%%uint63 %d%%uint63)", w[0], w[1], w[2], w[3], w[4])
}
