// C18 harness: hands random snapshot sets (1..64, many equal timestamps, version
// mixes) in random orders to both round-hash implementations of the repository
// (common.ComputeRoundHash of the live node, storage.computeRoundHash of the
// startup validator via hook) and checks the property directly: every order and
// both implementations return the same start, end and hash, and that value is the
// chained hash over the (timestamp, hash)-sorted set seeded by (node, number) -
// so it depends on nothing but node, number and the set of (timestamp, hash).
package main

import (
	"bytes"
	"encoding/binary"
	"encoding/hex"
	"fmt"
	"sort"
	"strings"

	"github.com/MixinNetwork/mixin/common"
	"github.com/MixinNetwork/mixin/config"
	"github.com/MixinNetwork/mixin/crypto"
	"github.com/MixinNetwork/mixin/kernel"
	"github.com/MixinNetwork/mixin/storage"
	"verifharness/vh"
)

type Snap struct {
	Hash    string `json:"hash"`
	Ts      uint64 `json:"ts"`
	Version uint8  `json:"version"`
	Topo    uint64 `json:"topo"`
}

type Case struct {
	Kind   string       `json:"kind"`
	Node   string       `json:"node"`
	Number uint64       `json:"number"`
	Snaps  []Snap       `json:"snaps"`
	Perms  [][]int      `json:"perms"` // orders the set is supplied in
	Model  bool         `json:"model"`
	Stages []Stage      `json:"stages,omitempty"` // kind "live": successive contents of ONE CacheRound object
	Rounds []StoreRound `json:"rounds,omitempty"` // kinds "store-*": rounds 0.. of Node written into real stores, then loaded (store.go)
}

// Stage installs Set as the content of the long-lived round object, by How:
// assign (new slice), inplace (overwrite elements of the same slice), append
// (validateSnapshot(add) of the last element), removeadd (drop the first, append the last).
type Stage struct {
	How string `json:"how"`
	Set []Snap `json:"set"`
}

const gap = config.SnapshotRoundGap

func h32(s string) crypto.Hash {
	b, err := hex.DecodeString(s)
	if err != nil || len(b) != 32 {
		panic("bad hash " + s)
	}
	var h crypto.Hash
	copy(h[:], b)
	return h
}

type result struct {
	pan        bool
	start, end uint64
	hash       crypto.Hash
}

func (r result) coq() string {
	if r.pan {
		return vh.Pan("(N * N * N)")
	}
	return vh.Ok("(" + vh.NU(r.start) + ", " + vh.NU(r.end) + ", " + num32(r.hash[:]) + ")")
}

func runCommon(node crypto.Hash, number uint64, snaps []Snap, perm []int, alt bool) result {
	l := make([]*common.Snapshot, len(perm))
	for i, p := range perm {
		s := snaps[p]
		l[i] = &common.Snapshot{Version: s.Version, NodeId: node, RoundNumber: number, Timestamp: s.Ts, Hash: h32(s.Hash)}
		if alt { // fields outside (timestamp, hash) must not matter
			l[i].Version = s.Version ^ 1
			l[i].Transactions = []crypto.Hash{h32(s.Hash)}
			l[i].RoundNumber = number + 5
		}
	}
	var r result
	r.pan, _ = vh.Catch(func() { r.start, r.end, r.hash = common.ComputeRoundHash(node, number, l) })
	return r
}

func runStorage(node crypto.Hash, number uint64, snaps []Snap, perm []int) result {
	l := make([]*common.SnapshotWithTopologicalOrder, len(perm))
	for i, p := range perm {
		s := snaps[p]
		l[i] = &common.SnapshotWithTopologicalOrder{
			Snapshot:         &common.Snapshot{Version: s.Version, NodeId: node, RoundNumber: number, Timestamp: s.Ts, Hash: h32(s.Hash)},
			TopologicalOrder: s.Topo,
		}
	}
	var r result
	r.pan, _ = vh.Catch(func() { r.start, r.end, r.hash = storage.VerifC18ComputeRoundHash(node, number, l) })
	return r
}

// the property's function: chained Blake3 over the set sorted by (timestamp, hash)
func reference(node crypto.Hash, number uint64, snaps []Snap) (result, []string) {
	if len(snaps) == 0 {
		return result{pan: true}, nil
	}
	type kv struct {
		ts uint64
		h  crypto.Hash
	}
	ks := make([]kv, len(snaps))
	for i, s := range snaps {
		ks[i] = kv{s.Ts, h32(s.Hash)}
	}
	sort.SliceStable(ks, func(i, j int) bool {
		if ks[i].ts != ks[j].ts {
			return ks[i].ts < ks[j].ts
		}
		return bytes.Compare(ks[i].h[:], ks[j].h[:]) < 0
	})
	r := result{start: ks[0].ts, end: ks[len(ks)-1].ts}
	if r.end >= r.start+gap { // uint64 arithmetic, as the property's "round gap" bound
		return result{pan: true}, nil
	}
	var tbl []string
	seed := binary.BigEndian.AppendUint64(append([]byte{}, node[:]...), number)
	h := crypto.Blake3Hash(seed)
	tbl = append(tbl, "("+vh.App("HSeed", num32(node[:]), vh.NU(number))+", "+num32(h[:])+")")
	for _, k := range ks {
		n := crypto.Blake3Hash(append(append([]byte{}, h[:]...), k.h[:]...))
		tbl = append(tbl, "("+vh.App("HLink", num32(h[:]), num32(k.h[:]))+", "+num32(n[:])+")")
		h = n
	}
	r.hash = h
	return r, tbl
}

func same(a, b result) bool {
	if a.pan || b.pan {
		return a.pan == b.pan
	}
	return a.start == b.start && a.end == b.end && a.hash == b.hash
}

func mkSnap(node crypto.Hash, number uint64, s Snap) *common.Snapshot {
	h := h32(s.Hash)
	return &common.Snapshot{Version: s.Version, NodeId: node, RoundNumber: number, Timestamp: s.Ts, Hash: h,
		Transactions: []crypto.Hash{crypto.Blake3Hash(h[:])}}
}

func coqSnaps(number uint64, set []Snap) (string, string) {
	lc := make([]string, len(set))
	lt := make([]string, len(set))
	for i, s := range set {
		hh := h32(s.Hash)
		lc[i] = vh.App("mk_snap", num32(hh[:]), vh.NU(s.Ts), vh.NU(uint64(s.Version)), vh.NU(number), "(@nil N)")
		lt[i] = vh.App("mk_tsnap", lc[i], vh.NU(s.Topo))
	}
	return vh.List(lc, "snap"), vh.List(lt, "tsnap")
}

// One long-lived kernel.CacheRound whose content changes between asFinal calls:
// the hash must always be the function of the CURRENT set (also through Copy()).
func runLive(c *vh.Ctx, cs Case) {
	node := h32(cs.Node)
	round := kernel.VerifC19NewCacheRound(node, cs.Number)
	for si, st := range cs.Stages {
		n := len(st.Set)
		switch {
		case st.How == "inplace" && len(round.Snapshots) == n:
			for i := range st.Set {
				round.Snapshots[i] = mkSnap(node, cs.Number, st.Set[i])
			}
		case st.How == "append" && len(round.Snapshots) == n-1:
			s := mkSnap(node, cs.Number, st.Set[n-1])
			var err error
			pan, _ := vh.Catch(func() { err = round.VerifC19Validate(s, true) })
			if pan || err != nil {
				round.Snapshots = append(round.Snapshots, s)
			}
		case st.How == "removeadd" && len(round.Snapshots) == n && n > 0:
			round.Snapshots = append(round.Snapshots[1:], mkSnap(node, cs.Number, st.Set[n-1]))
		default:
			l := make([]*common.Snapshot, n)
			for i := range st.Set {
				l[i] = mkSnap(node, cs.Number, st.Set[i])
			}
			round.Snapshots = l
		}
		// what the object holds now (the stages only describe how it got there)
		cur := make([]Snap, len(round.Snapshots))
		for i, s := range round.Snapshots {
			cur[i] = Snap{Hash: hex.EncodeToString(s.Hash[:]), Ts: s.Timestamp, Version: s.Version, Topo: uint64(i)}
		}
		ref, tbl := reference(node, cs.Number, cur)
		id := make([]int, len(cur))
		for i := range id {
			id[i] = i
		}
		lcTerm, ltTerm := coqSnaps(cs.Number, cur)
		get := func(r *kernel.CacheRound) result {
			var out result
			var fr *kernel.FinalRound
			out.pan, _ = vh.Catch(func() { fr = r.VerifC19AsFinal() })
			if !out.pan && fr != nil {
				out.start, out.end, out.hash = fr.Start, fr.End, fr.Hash
			}
			return out
		}
		cp := round.Copy()
		rLive := get(round)
		rCopy := get(cp)
		rFresh := runCommon(node, cs.Number, cur, id, false)
		rStore := runStorage(node, cs.Number, cur, id)
		if len(cur) > 0 {
			if !same(rLive, ref) || !same(rLive, rFresh) {
				c.Fail("stale-live-round", fmt.Sprintf("asFinal on a long-lived round object is not the hash of its current snapshot set (stage %d %s)", si, st.How), cs)
			}
			if !same(rCopy, ref) {
				c.Fail("stale-copied-round", fmt.Sprintf("asFinal on a Copy() of the round object is not the hash of its current snapshot set (stage %d %s)", si, st.How), cs)
			}
			if !same(rStore, rFresh) {
				c.Fail("implementations-disagree", "storage.computeRoundHash and common.ComputeRoundHash disagree", cs)
			}
			term := vh.App("CHash", num32(node[:]), vh.NU(cs.Number), lcTerm, ltTerm, vh.List(tbl, "(hin * N)"), rLive.coq(), rStore.coq())
			c.Case("live-"+st.How, fmt.Sprintf("%s|%d|%d|%v", cs.Node, cs.Number, si, cs.Stages), !ref.pan && len(cur) >= 2, cs, term)
			term2 := vh.App("CHash", num32(node[:]), vh.NU(cs.Number), lcTerm, ltTerm, vh.List(tbl, "(hin * N)"), rCopy.coq(), rStore.coq())
			c.Case("live-copy", fmt.Sprintf("%s|%d|%d|copy|%v", cs.Node, cs.Number, si, cs.Stages), !ref.pan && len(cur) >= 2, cs, term2)
		}
	}
}

func genLive(c *vh.Ctx) Case {
	r := c.Rng
	cs := Case{Kind: "live", Node: hex.EncodeToString(r.Bytes(32)), Number: uint64(r.Intn(9))}
	base := 1700000000000000000 + r.U64()%1000000000000000
	ctr := uint64(0)
	fresh := func() Snap {
		ctr++
		s := Snap{Ts: base + ctr*1000 + r.U64()%1000, Version: 2, Hash: hex.EncodeToString(r.Bytes(32))}
		if r.Chance(1, 2) {
			s.Hash = small(1 + r.U64()%1000000)
		}
		return s
	}
	n := r.Range(1, 7)
	set := make([]Snap, n)
	for i := range set {
		set[i] = fresh()
	}
	cs.Stages = append(cs.Stages, Stage{How: "assign", Set: append([]Snap{}, set...)})
	for k := r.Range(2, 6); k > 0; k-- {
		how := []string{"assign", "inplace", "inplace1", "append", "removeadd"}[r.Intn(5)]
		next := append([]Snap{}, set...)
		switch how {
		case "assign", "inplace": // a different set of the same size
			for i := range next {
				next[i] = fresh()
			}
		case "inplace1": // one element replaced
			next[r.Intn(len(next))] = fresh()
			how = "inplace"
		case "append":
			next = append(next, fresh())
		case "removeadd":
			next = append(next[1:], fresh())
		}
		set = next
		cs.Stages = append(cs.Stages, Stage{How: how, Set: append([]Snap{}, set...)})
	}
	return cs
}

func run(c *vh.Ctx, cs Case) {
	if cs.Kind == "live" {
		runLive(c, cs)
		return
	}
	if strings.HasPrefix(cs.Kind, "store-") {
		runStore(c, cs)
		return
	}
	node := h32(cs.Node)
	ref, tbl := reference(node, cs.Number, cs.Snaps)
	var first, firstS result
	for i, perm := range cs.Perms {
		rc := runCommon(node, cs.Number, cs.Snaps, perm, false)
		rs := runStorage(node, cs.Number, cs.Snaps, perm)
		ra := runCommon(node, cs.Number, cs.Snaps, perm, true)
		if i == 0 {
			first = rc
		}
		if i == len(cs.Perms)-1 {
			firstS = rs
		}
		if !same(rc, first) {
			c.Fail("order-dependent", fmt.Sprintf("ComputeRoundHash differs between two orders of the same set (order #%d)", i), cs)
		}
		if !same(rs, rc) {
			c.Fail("implementations-disagree", fmt.Sprintf("storage.computeRoundHash and common.ComputeRoundHash disagree (order #%d)", i), cs)
		}
		if !same(ra, rc) {
			c.Fail("depends-on-other-fields", "the round hash changed with snapshot fields other than (timestamp, hash)", cs)
		}
		if !same(rc, ref) {
			c.Fail("not-the-set-function", fmt.Sprintf("ComputeRoundHash is not the chained hash of the (timestamp, hash)-sorted set (order #%d)", i), cs)
		}
	}
	term := ""
	if cs.Model && len(cs.Perms) > 0 {
		lc := make([]string, len(cs.Snaps))
		for i, p := range cs.Perms[0] {
			s := cs.Snaps[p]
			hh := h32(s.Hash)
			lc[i] = vh.App("mk_snap", num32(hh[:]), vh.NU(s.Ts), vh.NU(uint64(s.Version)), vh.NU(cs.Number), "(@nil N)")
		}
		lt := make([]string, len(cs.Snaps))
		for i, p := range cs.Perms[len(cs.Perms)-1] {
			s := cs.Snaps[p]
			hh := h32(s.Hash)
			lt[i] = vh.App("mk_tsnap", vh.App("mk_snap", num32(hh[:]), vh.NU(s.Ts), vh.NU(uint64(s.Version)), vh.NU(cs.Number), "(@nil N)"), vh.NU(s.Topo))
		}
		term = vh.App("CHash", num32(node[:]), vh.NU(cs.Number), vh.List(lc, "snap"), vh.List(lt, "tsnap"),
			vh.List(tbl, "(hin * N)"), first.coq(), firstS.coq())
	}
	key := fmt.Sprintf("%s|%d|%v", cs.Node, cs.Number, cs.Snaps)
	c.Case(cs.Kind, key, !first.pan && len(cs.Snaps) >= 2, cs, term)
}

// ---- generators -------------------------------------------------------------------

func small(n uint64) string {
	var h crypto.Hash
	binary.BigEndian.PutUint64(h[24:], n)
	return hex.EncodeToString(h[:])
}

func perms(r *vh.Rand, n, count int) [][]int {
	out := make([][]int, 0, count)
	id := make([]int, n)
	for i := range id {
		id[i] = i
	}
	out = append(out, id)
	rev := make([]int, n)
	for i := range rev {
		rev[i] = n - 1 - i
	}
	out = append(out, rev)
	for len(out) < count {
		p := append([]int{}, id...)
		for i := n - 1; i > 0; i-- {
			j := r.Intn(i + 1)
			p[i], p[j] = p[j], p[i]
		}
		out = append(out, p)
	}
	return out
}

func genSet(c *vh.Ctx, model bool) Case {
	r := c.Rng
	n := r.Range(1, 10)
	if r.Chance(1, 4) {
		n = r.Range(11, 64)
	}
	if model && n > 24 && r.Chance(3, 4) {
		n = r.Range(2, 24)
	}
	cs := Case{Kind: "set", Node: hex.EncodeToString(r.Bytes(32)), Number: r.U64() >> uint(r.Intn(64)), Model: model}
	base := 1700000000000000000 + r.U64()%1000000000000000
	if r.Chance(1, 30) {
		cs.Kind = "top"
		base = ^uint64(0) - uint64(r.Intn(3))*gap/2 - uint64(r.Intn(2))
	}
	distinctTs := r.Range(1, 4) // few timestamps: the hash tie-break decides the order
	if r.Chance(1, 5) {
		distinctTs = n
	}
	tss := make([]uint64, distinctTs)
	for i := range tss {
		tss[i] = base + r.U64()%gap
		if r.Chance(1, 40) {
			cs.Kind = "wide"
			tss[i] = base + gap - uint64(r.Intn(2)) // may span the full gap: both must panic
		}
	}
	for i := 0; i < n; i++ {
		s := Snap{Ts: tss[r.Intn(len(tss))], Version: uint8(r.Intn(4)), Topo: r.U64() % 1000}
		switch {
		case r.Chance(1, 3): // hashes sharing a long prefix
			var h crypto.Hash
			h[31-r.Intn(3)] = byte(r.Intn(4))
			s.Hash = hex.EncodeToString(h[:])
		case i > 0 && r.Chance(1, 25): // the very same (timestamp, hash) twice
			s.Hash, s.Ts = cs.Snaps[0].Hash, cs.Snaps[0].Ts
		default:
			s.Hash = hex.EncodeToString(r.Bytes(32))
		}
		cs.Snaps = append(cs.Snaps, s)
	}
	cs.Perms = perms(r, n, r.Range(3, 6))
	return cs
}

func corpus() []Case {
	n := small(9)
	b := uint64(1700000000000000000)
	two := func(k int) [][]int { return perms(vh.NewRand(1, "c18"), k, 4) }
	return []Case{
		{Kind: "corpus", Node: n, Number: 0, Snaps: nil, Perms: [][]int{{}}, Model: true},
		{Kind: "corpus", Node: n, Number: 0, Snaps: []Snap{{Hash: small(1), Ts: b, Version: 2}}, Perms: [][]int{{0}}, Model: true},
		{Kind: "corpus", Node: n, Number: 7, Snaps: []Snap{{Hash: small(2), Ts: b, Version: 2}, {Hash: small(1), Ts: b, Version: 1}}, Perms: two(2), Model: true},
		{Kind: "corpus", Node: n, Number: 7, Snaps: []Snap{{Hash: small(1), Ts: b + 1, Version: 2}, {Hash: small(2), Ts: b, Version: 0}, {Hash: small(3), Ts: b, Version: 3}}, Perms: two(3), Model: true},
		{Kind: "corpus", Node: n, Number: 7, Snaps: []Snap{{Hash: small(1), Ts: b}, {Hash: small(2), Ts: b + gap - 1}}, Perms: two(2), Model: true},
		{Kind: "corpus", Node: n, Number: 7, Snaps: []Snap{{Hash: small(1), Ts: b}, {Hash: small(2), Ts: b + gap}}, Perms: two(2), Model: true},
		{Kind: "corpus", Node: n, Number: ^uint64(0), Snaps: []Snap{{Hash: small(1), Ts: ^uint64(0)}}, Perms: [][]int{{0}}, Model: true},
		{Kind: "corpus", Node: n, Number: 1, Snaps: []Snap{{Hash: small(1), Ts: b}, {Hash: small(1), Ts: b}, {Hash: small(0), Ts: b}}, Perms: two(3), Model: true},
	}
}

func liveCorpus() []Case {
	n := small(9)
	b := uint64(1700000000000000000)
	a := func(h, dt uint64) Snap { return Snap{Hash: small(h), Ts: b + dt, Version: 2} }
	return []Case{
		// same size, different set; one element replaced in place; append; remove+add
		{Kind: "live", Node: n, Number: 4, Stages: []Stage{
			{How: "assign", Set: []Snap{a(1, 10), a(2, 20)}},
			{How: "assign", Set: []Snap{a(3, 30), a(4, 40)}},
			{How: "inplace", Set: []Snap{a(3, 30), a(5, 50)}},
			{How: "append", Set: []Snap{a(3, 30), a(5, 50), a(6, 60)}},
			{How: "removeadd", Set: []Snap{a(5, 50), a(6, 60), a(7, 70)}},
			{How: "inplace", Set: []Snap{a(8, 80), a(9, 90), a(10, 100)}}}},
		{Kind: "live", Node: n, Number: 0, Stages: []Stage{
			{How: "assign", Set: []Snap{a(1, 10)}}, {How: "inplace", Set: []Snap{a(2, 10)}},
			{How: "inplace", Set: []Snap{a(2, 11)}}, {How: "append", Set: []Snap{a(2, 11), a(3, 12)}}}},
	}
}

func main() {
	c := vh.Start("C18")
	c.Rep.Rule = "corpus (empty set, singletons, equal timestamps, span gap-1 / gap, uint64 top), then random sets of 1..64 snapshots " +
		"with 1..4 distinct timestamps (so the hash tie-break decides), hashes with long common prefixes, repeated (timestamp, hash), " +
		"version mixes 0..3, each supplied in 3..6 orders (identity, reverse, random) to both Go implementations. " +
		"Kind live: ONE long-lived kernel.CacheRound whose content is changed between asFinal calls (different set of the same size, " +
		"one element overwritten in place, append through validateSnapshot, remove+add) and its Copy(), each compared with a fresh " +
		"computation by both implementations. Non-trivial = at least two snapshots and no gap panic; distinct by (node, number, set)."
	if c.Replay != "" {
		var cs Case
		c.ReplayCase(&cs)
		run(c, cs)
		closeStores()
		c.Finish()
		return
	}
	for _, cs := range corpus() {
		run(c, cs)
	}
	for _, cs := range liveCorpus() {
		run(c, cs)
	}
	n := c.Scale(2000, 60000)
	m := c.Scale(500, 6000)
	if c.Tier == "search" {
		m = 500
	}
	for i := 0; i < n; i++ {
		run(c, genSet(c, i < m))
	}
	for i := c.Scale(60, 3000); i > 0; i-- {
		run(c, genLive(c))
	}
	runStoreCases(c) // last: the random stream of the kinds above is unchanged
	c.Finish()
}
