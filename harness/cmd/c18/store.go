// C18 store cases: rounds are WRITTEN into real Badger stores (public API:
// LoadGenesis, StartNewRound, WriteTransaction, WriteSnapshot), the same rounds in
// a different insertion order / topological order per store, and then LOADED the
// way a starting node does it: loadHeadRoundForNode, loadFinalRoundForNode,
// loadRoundHistoryForNode and Chain.loadState (hooks kernel.VerifC18Load*).
// Oracle (property text): every loaded round's start, end and hash are the chained
// hash over the WHOLE stored set sorted by (timestamp, hash), recomputed here from
// the snapshots that were written; the startup validator's function over what the
// store returns gives the same; and so for every store / insertion order.
package main

import (
	"encoding/hex"
	"fmt"
	"os"
	"sort"
	"strings"

	"github.com/MixinNetwork/mixin/common"
	"github.com/MixinNetwork/mixin/config"
	"github.com/MixinNetwork/mixin/crypto"
	"github.com/MixinNetwork/mixin/kernel"
	"github.com/MixinNetwork/mixin/storage"
	"verifharness/vh"
)

// StoreRound is one round of the case node: the timestamps of its snapshots (one
// transaction each; the snapshot hash is the payload hash) and, per store, the
// order the snapshots are written in.
type StoreRound struct {
	Ts     []uint64 `json:"ts"`
	Orders [][]int  `json:"orders"`
}

const oneDay = uint64(kernel.VerifC10OneDay)

var (
	c18Tiny    = common.NewIntegerFromString("0.00000001")
	c18Genesis = crypto.Blake3Hash([]byte("c18-genesis-node"))
)

// ---- stores -----------------------------------------------------------------------

type liveStore struct {
	store *storage.BadgerStore
	dir   string
	topo  uint64
	used  int
}

var stores []*liveStore

func tmpRoot() string {
	if os.Getenv("TMPDIR") == "" {
		if st, err := os.Stat("/dev/shm"); err == nil && st.IsDir() {
			if d, err := os.MkdirTemp("/dev/shm", "probe"); err == nil {
				os.RemoveAll(d)
				return "/dev/shm"
			}
		}
	}
	return ""
}

func must(err error) {
	if err != nil {
		panic(err)
	}
}

// store k of the run, with the genesis (XIN asset, round 0 of the genesis node,
// which is the external reference of every later round) loaded.
func getStore(k int) *liveStore {
	for len(stores) <= k {
		stores = append(stores, nil)
	}
	if ls := stores[k]; ls != nil && ls.used >= 400 {
		ls.store.Close()
		os.RemoveAll(ls.dir)
		stores[k] = nil
	}
	if stores[k] == nil {
		dir, err := os.MkdirTemp(tmpRoot(), "c18-")
		must(err)
		store, err := storage.NewBadgerStore(&config.Custom{}, dir)
		must(err)
		tx := common.NewTransactionV5(common.XINAssetId)
		tx.Inputs = []*common.Input{{Genesis: []byte("c18-genesis")}}
		seed := make([]byte, 64)
		copy(seed, "c18-genesis-signer")
		signer := crypto.NewKeyFromSeed(seed).Public()
		tx.Outputs = []*common.Output{{Type: common.OutputTypeNodeAccept, Amount: c18Tiny}}
		tx.Extra = append(signer[:], signer[:]...)
		ver := tx.AsVersioned()
		s := &common.Snapshot{Version: common.SnapshotVersionCommonEncoding, NodeId: c18Genesis, Timestamp: 1600000000000000000,
			Transactions: []crypto.Hash{ver.PayloadHash()}, Signature: &crypto.CosiSignature{Mask: 1}}
		s.Hash = s.PayloadHash()
		rounds := []*common.Round{{Hash: c18Genesis, NodeId: c18Genesis, Number: 0, References: &common.RoundLink{}}}
		must(store.LoadGenesis(rounds, []*common.SnapshotWithTopologicalOrder{{Snapshot: s, TopologicalOrder: 0}}, []*common.VersionedTransaction{ver}))
		stores[k] = &liveStore{store: store, dir: dir, topo: 1}
	}
	stores[k].used++
	return stores[k]
}

func closeStores() {
	for i, ls := range stores {
		if ls != nil {
			ls.store.Close()
			os.RemoveAll(ls.dir)
			stores[i] = nil
		}
	}
}

// ---- one case ------------------------------------------------------------------------

type builtSnap struct {
	ver  *common.VersionedTransaction
	snap *common.Snapshot
}

func finalResult(f *kernel.FinalRound) result {
	return result{start: f.Start, end: f.End, hash: f.Hash}
}

func describe(r result) string {
	if r.pan {
		return "panic"
	}
	return fmt.Sprintf("(%d,%d,%s)", r.start, r.end, hex.EncodeToString(r.hash[:4]))
}

func runStore(c *vh.Ctx, cs Case) {
	node := h32(cs.Node)
	nr := len(cs.Rounds)
	if nr == 0 {
		panic("store case without rounds")
	}
	nstores := len(cs.Rounds[0].Orders)

	// the snapshots, their sets and the property's function of each set
	built := make([][]builtSnap, nr)
	sets := make([][]Snap, nr)
	refs := make([]result, nr)
	tbls := make([][]string, nr)
	links := make([]*common.RoundLink, nr)
	anyPan, maxSize, ties := false, 0, 0
	for r, rd := range cs.Rounds {
		if r > 0 {
			if refs[r-1].pan || len(cs.Rounds[r-1].Ts) == 0 {
				panic("store case: a round after an unhashable round")
			}
			links[r] = &common.RoundLink{Self: refs[r-1].hash, External: c18Genesis}
		}
		seen := map[uint64]bool{}
		for i, ts := range rd.Ts {
			tx := common.NewTransactionV5(common.XINAssetId)
			tx.Inputs = []*common.Input{{Genesis: []byte(fmt.Sprintf("c18-%s-%d-%d", cs.Node, r, i))}}
			tx.Outputs = []*common.Output{{Type: common.OutputTypeScript, Amount: c18Tiny}}
			ver := tx.AsVersioned()
			s := &common.Snapshot{Version: common.SnapshotVersionCommonEncoding, NodeId: node, RoundNumber: uint64(r),
				Timestamp: ts, Transactions: []crypto.Hash{ver.PayloadHash()}, Signature: &crypto.CosiSignature{Mask: 1}}
			if r > 0 {
				s.References = links[r].Copy()
			}
			s.Hash = s.PayloadHash()
			built[r] = append(built[r], builtSnap{ver, s})
			sets[r] = append(sets[r], Snap{Hash: hex.EncodeToString(s.Hash[:]), Ts: ts, Version: s.Version})
			if seen[ts] {
				ties++
			}
			seen[ts] = true
		}
		if len(rd.Ts) > 0 {
			refs[r], tbls[r] = reference(node, uint64(r), sets[r])
			anyPan = anyPan || refs[r].pan
		} else if r != nr-1 {
			panic("store case: only the head round may be empty")
		}
		if len(rd.Ts) > maxSize {
			maxSize = len(rd.Ts)
		}
	}

	failed := false
	fail := func(sig, what string) {
		if !failed {
			c.Fail(sig, what, cs)
		}
		failed = true
	}

	type perStore struct {
		final   []result // loadFinalRoundForNode per round
		valid   []result // the validator's function over what the store returns
		stored  [][]Snap // what the store returns, in its order
		head    result
		headNil bool
	}
	obs := make([]perStore, nstores)
	for k := 0; k < nstores; k++ {
		ls := getStore(k)
		store := ls.store
		// ---- write
		for r, rd := range cs.Rounds {
			if r == 0 {
				must(store.StartNewRound(node, 0, &common.RoundLink{}, 0))
			} else {
				must(store.StartNewRound(node, uint64(r), links[r], refs[r-1].start))
			}
			if len(rd.Orders) != nstores || len(rd.Orders[k]) != len(rd.Ts) {
				panic("store case: bad orders")
			}
			for _, i := range rd.Orders[k] {
				b := built[r][i]
				must(store.WriteTransaction(b.ver))
				cp := *b.snap
				must(store.WriteSnapshot(&common.SnapshotWithTopologicalOrder{Snapshot: &cp, TopologicalOrder: ls.topo}, nil))
				ls.topo++
			}
		}
		// ---- load, the way a starting node does
		o := &obs[k]
		o.final, o.valid, o.stored = make([]result, nr), make([]result, nr), make([][]Snap, nr)
		for r := range cs.Rounds {
			if len(cs.Rounds[r].Ts) == 0 {
				continue
			}
			stored, err := store.ReadSnapshotsForNodeRound(node, uint64(r))
			must(err)
			for _, s := range stored {
				o.stored[r] = append(o.stored[r], Snap{Hash: hex.EncodeToString(s.Hash[:]), Ts: s.Timestamp, Version: s.Version, Topo: s.TopologicalOrder})
			}
			o.valid[r].pan, _ = vh.Catch(func() {
				o.valid[r].start, o.valid[r].end, o.valid[r].hash = storage.VerifC18ComputeRoundHash(node, uint64(r), stored)
			})
			var f *kernel.FinalRound
			o.final[r].pan, _ = vh.Catch(func() { f, err = kernel.VerifC18LoadFinalRound(store, node, uint64(r)) })
			if !o.final[r].pan {
				must(err)
				if f == nil || f.NodeId != node || f.Number != uint64(r) {
					fail("loaded-round-wrong-identity", fmt.Sprintf("store %d: loadFinalRoundForNode(round %d) returned another round", k, r))
					o.final[r].pan = true
					continue
				}
				o.final[r] = finalResult(f)
			}
			if !same(o.final[r], refs[r]) {
				fail("loaded-final-round-not-stored-set", fmt.Sprintf("store %d: loadFinalRoundForNode(round %d) = %s is not the round hash of the %d stored snapshots %s",
					k, r, describe(o.final[r]), len(sets[r]), describe(refs[r])))
			}
			if !same(o.valid[r], refs[r]) || len(stored) != len(sets[r]) {
				fail("validator-not-stored-set", fmt.Sprintf("store %d: computeRoundHash over the %d snapshots the store returns for round %d is not the round hash of the %d written",
					k, len(stored), r, len(sets[r])))
			}
			if !same(o.valid[r], o.final[r]) {
				fail("implementations-disagree", fmt.Sprintf("store %d round %d: startup validator and live node loader disagree", k, r))
			}
		}
		// head round
		last := nr - 1
		var head *kernel.CacheRound
		var err error
		var hf *kernel.FinalRound
		o.head.pan, _ = vh.Catch(func() {
			head, err = kernel.VerifC18LoadHeadRound(store, node)
			if err == nil && head != nil {
				hf = head.VerifC18AsFinal()
			}
		})
		if !o.head.pan {
			must(err)
			if head == nil || head.NodeId != node || head.Number != uint64(last) {
				fail("loaded-round-wrong-identity", fmt.Sprintf("store %d: loadHeadRoundForNode did not return round %d", k, last))
			} else if hf == nil {
				o.headNil = true
			} else {
				o.head = finalResult(hf)
			}
		}
		if len(cs.Rounds[last].Ts) == 0 {
			if !o.headNil {
				fail("loaded-head-round-not-stored-set", fmt.Sprintf("store %d: the empty head round was loaded with snapshots", k))
			}
		} else if o.headNil || !same(o.head, refs[last]) {
			fail("loaded-head-round-not-stored-set", fmt.Sprintf("store %d: loadHeadRoundForNode(round %d).asFinal = %s is not the round hash of the %d stored snapshots %s",
				k, last, describe(o.head), len(sets[last]), describe(refs[last])))
		}
		if anyPan {
			continue // a round that cannot be hashed: no history
		}
		// history up to every final round (all rounds but the head)
		checkHistory := func(what string, to uint64, hist []*kernel.FinalRound) {
			if len(hist) == 0 || hist[len(hist)-1] == nil || hist[len(hist)-1].Number != to {
				fail("loaded-history-not-stored-set", fmt.Sprintf("store %d: %s up to round %d does not end with that round", k, what, to))
				return
			}
			for i, h := range hist {
				if h == nil || h.NodeId != node || h.Number > to || (i > 0 && h.Number != hist[i-1].Number+1) {
					fail("loaded-history-not-stored-set", fmt.Sprintf("store %d: %s up to round %d is not a run of consecutive rounds of the node", k, what, to))
					return
				}
				if !same(finalResult(h), refs[h.Number]) {
					fail("loaded-history-not-stored-set", fmt.Sprintf("store %d: %s up to round %d: round %d = %s is not the round hash of the %d stored snapshots %s",
						k, what, to, h.Number, describe(finalResult(h)), len(sets[h.Number]), describe(refs[h.Number])))
					return
				}
			}
		}
		for to := 0; to < last; to++ {
			if to != last-1 && to%4 != k%4 {
				continue
			}
			toRound := &kernel.FinalRound{NodeId: node, Number: uint64(to), Start: refs[to].start, End: refs[to].end, Hash: refs[to].hash}
			var hist []*kernel.FinalRound
			pan, _ := vh.Catch(func() { hist = kernel.VerifC18LoadRoundHistory(store, toRound) })
			if pan {
				fail("loaded-history-not-stored-set", fmt.Sprintf("store %d: loadRoundHistoryForNode up to round %d panics", k, to))
				continue
			}
			checkHistory("loadRoundHistoryForNode", uint64(to), hist)
		}
		// the whole chain state of a starting node
		if last >= 1 {
			var cache *kernel.CacheRound
			var final *kernel.FinalRound
			var hist []*kernel.FinalRound
			var cf *kernel.FinalRound
			pan, _ := vh.Catch(func() {
				cache, final, hist, err = kernel.VerifC18LoadChainState(store, node)
				if err == nil && cache != nil {
					cf = cache.VerifC18AsFinal()
				}
			})
			switch {
			case pan || err != nil || cache == nil || final == nil:
				fail("loaded-chain-state-not-stored-set", fmt.Sprintf("store %d: Chain.loadState fails on the stored rounds", k))
			case cache.Number != uint64(last) || final.Number != uint64(last-1) || final.NodeId != node:
				fail("loaded-round-wrong-identity", fmt.Sprintf("store %d: Chain.loadState installed rounds %d/%d", k, final.Number, cache.Number))
			default:
				if !same(finalResult(final), refs[last-1]) {
					fail("loaded-chain-state-not-stored-set", fmt.Sprintf("store %d: Chain.loadState final round %d = %s is not the round hash of the %d stored snapshots %s",
						k, last-1, describe(finalResult(final)), len(sets[last-1]), describe(refs[last-1])))
				}
				if len(cs.Rounds[last].Ts) == 0 {
					if cf != nil {
						fail("loaded-chain-state-not-stored-set", fmt.Sprintf("store %d: Chain.loadState loaded the empty head round with snapshots", k))
					}
				} else if cf == nil || !same(finalResult(cf), refs[last]) {
					fail("loaded-chain-state-not-stored-set", fmt.Sprintf("store %d: Chain.loadState head round %d is not the %d stored snapshots", k, last, len(sets[last])))
				}
				checkHistory("Chain.loadState history", uint64(last-1), hist)
			}
		}
	}
	// every store / insertion order gives the same rounds
	for k := 1; k < nstores; k++ {
		for r := range cs.Rounds {
			if len(cs.Rounds[r].Ts) > 0 && !same(obs[k].final[r], obs[0].final[r]) {
				fail("store-order-dependent", fmt.Sprintf("round %d loaded from two stores holding the same set (written in different orders) differs", r))
			}
		}
		if obs[k].headNil != obs[0].headNil || !same(obs[k].head, obs[0].head) {
			fail("store-order-dependent", "the head round loaded from two stores holding the same set (written in different orders) differs")
		}
	}

	// model cases: the live loader's result of store 0 against round_hash_common over
	// the whole stored set (in store 0's order), the validator's of the last store
	// against round_hash_storage (in that store's order, with its topological orders)
	key := fmt.Sprintf("%s|%v", cs.Node, cs.Rounds)
	nontrivial := !failed && !anyPan && maxSize >= 2
	sent := false
	if cs.Model {
		for r := range cs.Rounds {
			n := len(cs.Rounds[r].Ts)
			if n == 0 || n > 24 || len(obs[0].stored[r]) != n || len(obs[nstores-1].stored[r]) != n {
				continue
			}
			lcTerm, _ := coqSnaps(uint64(r), obs[0].stored[r])
			_, ltTerm := coqSnaps(uint64(r), obs[nstores-1].stored[r])
			term := vh.App("CHash", num32(node[:]), vh.NU(uint64(r)), lcTerm, ltTerm, vh.List(tbls[r], "(hin * N)"),
				obs[0].final[r].coq(), obs[nstores-1].valid[r].coq())
			c.Case(cs.Kind, fmt.Sprintf("%s|round %d", key, r), nontrivial && n >= 2, cs, term)
			sent = true
		}
	}
	if !sent {
		c.Case(cs.Kind, key, nontrivial, cs, "")
	}
	c.Count(fmt.Sprintf("store:rounds=%d", nr))
	if ties > 0 {
		c.Count("store:with-equal-timestamps")
	}
	if maxSize > 12 {
		c.Count("store:round>12 (unstable store sort)")
	}
}

// ---- generators ------------------------------------------------------------------------

func orders(r *vh.Rand, n, count int) [][]int {
	return perms(r, n, count)[:count]
}

// timestamps of one round by pattern; start is chosen so the round stays inside
// one day unless the pattern is dayleap
func roundTs(r *vh.Rand, pattern string, start uint64, n int) []uint64 {
	ts := make([]uint64, n)
	used := map[uint64]bool{}
	for i := range ts { // distinct, ascending by construction after sort
		for {
			ts[i] = start + r.U64()%(gap-1)
			if !used[ts[i]] {
				break
			}
		}
		used[ts[i]] = true
	}
	sort.Slice(ts, func(i, j int) bool { return ts[i] < ts[j] })
	share := func(k int, where string) {
		if n < k {
			k = n
		}
		at := 0
		switch where {
		case "end":
			at = n - k
		case "middle":
			at = (n - k) / 2
			if n-k >= 2 && at == 0 {
				at = 1
			}
		}
		for i := 1; i < k; i++ {
			ts[at+i] = ts[at]
		}
	}
	f := strings.Split(pattern, "-")
	switch f[0] {
	case "eq2":
		share(2, f[1])
	case "eq3":
		share(3, f[1])
	case "alleq":
		share(n, "start")
	case "groups": // 1..3 distinct timestamps only
		d := r.Range(1, 3)
		if d > n {
			d = n
		}
		vals := append([]uint64{}, ts[:d]...)
		for i := range ts {
			ts[i] = vals[r.Intn(d)]
		}
	case "dayleap":
		for i := n / 2; i < n; i++ {
			ts[i] = start + (oneDay - start%oneDay) + uint64(i) // the next day
		}
	}
	// the case lists them in a random order
	for i := n - 1; i > 0; i-- {
		j := r.Intn(i + 1)
		ts[i], ts[j] = ts[j], ts[i]
	}
	return ts
}

var storePatterns = []string{"distinct", "eq2-start", "eq2-middle", "eq2-end", "eq3-start", "eq3-middle", "eq3-end", "alleq", "groups", "big", "dayleap"}

// start of round k: the rounds are 2 gaps apart and lie inside one day, except
// that for the dayleap pattern round leap begins just before midnight
func roundStart(r *vh.Rand, base uint64, k int) uint64 {
	return base + uint64(k)*2*gap + r.U64()%(gap/2)
}

func genStore(c *vh.Ctx, pattern string, model bool) Case {
	r := c.Rng
	cs := Case{Kind: "store-" + pattern, Node: hex.EncodeToString(r.Bytes(32)), Model: model}
	nstores := r.Range(2, 3)
	nr := r.Range(1, 4)
	if r.Chance(1, 8) {
		nr = r.Range(10, 14) // longer than the reference threshold: the history is cut
	}
	emptyHead := nr >= 2 && r.Chance(1, 4)
	leap := nr - 1 // the round the pattern is certainly applied to
	if emptyHead {
		leap = nr - 2
	}
	if nr > 1 && r.Chance(1, 2) {
		leap = r.Intn(leap + 1)
	}
	day := (1700000000000000000/oneDay + uint64(r.Intn(1000))) * oneDay
	base := day + 100*gap + r.U64()%(oneDay-200*gap)
	if pattern == "dayleap" {
		base = day - 1 - gap/2 - uint64(leap)*2*gap
		nr = leap + 1 + r.Intn(2)
		emptyHead = emptyHead && nr-1 > leap
	}
	for k := 0; k < nr; k++ {
		p := pattern
		if k != leap && (pattern == "dayleap" || (nr > 4 && !r.Chance(1, 3))) {
			p = "distinct"
		}
		n := r.Range(2, 7)
		switch {
		case p == "big":
			n = r.Range(13, 40)
			p = "groups"
		case nr > 4 && k != leap:
			n = r.Range(1, 4)
		case k != leap && r.Chance(1, 10):
			n = 1
		}
		if k == nr-1 && emptyHead {
			n = 0
		}
		rd := StoreRound{Ts: roundTs(r, p, roundStart(r, base, k), n), Orders: orders(r, n, nstores)}
		cs.Rounds = append(cs.Rounds, rd)
	}
	return cs
}

func storeCorpus() []Case {
	b := uint64(1700000000000000000)
	n := 0
	mk := func(kind string, model bool, rounds ...[]uint64) Case {
		n++
		cs := Case{Kind: "store-" + kind, Node: small(uint64(1000 + n)), Model: model}
		for _, ts := range rounds {
			k := len(ts)
			id, rev := make([]int, k), make([]int, k)
			for i := range id {
				id[i], rev[i] = i, k-1-i
			}
			cs.Rounds = append(cs.Rounds, StoreRound{Ts: ts, Orders: [][]int{id, rev}})
		}
		return cs
	}
	g := gap
	return []Case{
		mk("distinct", true, []uint64{b + 30, b + 10, b + 20, b + 40}),
		mk("eq2-start", true, []uint64{b + 10, b + 10, b + 20, b + 30}),
		mk("eq2-middle", true, []uint64{b + 10, b + 20, b + 20, b + 30}),
		mk("eq2-end", true, []uint64{b + 10, b + 20, b + 30, b + 30}),
		mk("eq3-start", true, []uint64{b + 10, b + 10, b + 10, b + 20, b + 30}),
		mk("eq3-middle", true, []uint64{b + 10, b + 20, b + 20, b + 20, b + 30}),
		mk("eq3-end", true, []uint64{b + 10, b + 20, b + 30, b + 30, b + 30}),
		mk("alleq", true, []uint64{b, b, b, b, b}),
		mk("alleq", true, []uint64{b, b}),
		// final round with ties below a head round, and below an empty head round
		mk("eq2-end", true, []uint64{b + 10, b + 20, b + 20}, []uint64{b + 2*g, b + 2*g + 5}),
		mk("eq2-start", true, []uint64{b + 10, b + 10, b + 20}, []uint64{}),
		mk("eq3-middle", true, []uint64{b + 1}, []uint64{b + 2*g, b + 2*g + 7, b + 2*g + 7, b + 2*g + 7, b + 2*g + 9}, []uint64{b + 4*g, b + 4*g}),
		// the two ends of the round share timestamps: start and end of the subset move
		mk("eq2-start", true, []uint64{b + g - 1, b, b, b + g - 1}),
		// a stored round spanning two days, and one spanning the full gap (both loaders must panic)
		mk("dayleap", true, []uint64{b - b%oneDay + oneDay - 1, b - b%oneDay + oneDay, b - b%oneDay + oneDay + 1}),
		mk("wide", true, []uint64{b, b + g}),
	}
}

func runStoreCases(c *vh.Ctx) {
	defer closeStores()
	for _, cs := range storeCorpus() {
		runStore(c, cs)
	}
	n := c.Scale(110, 4000)
	m := c.Scale(44, 800) // sent to the model as well
	if c.Tier == "search" {
		m = 44
	}
	for i := 0; i < n; i++ {
		runStore(c, genStore(c, storePatterns[i%len(storePatterns)], i < m))
	}
}
