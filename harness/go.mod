module verifharness

go 1.26.5

require (
	filippo.io/edwards25519 v1.2.0
	github.com/MixinNetwork/mixin v0.0.0
	github.com/dgraph-io/badger/v4 v4.9.4
	github.com/dgraph-io/ristretto/v2 v2.4.2
	github.com/zeebo/blake3 v0.2.4
)

require (
	github.com/cespare/xxhash/v2 v2.3.0 // indirect
	github.com/dustin/go-humanize v1.0.1 // indirect
	github.com/google/flatbuffers v25.12.19+incompatible // indirect
	github.com/klauspost/compress v1.19.0 // indirect
	github.com/klauspost/cpuid/v2 v2.4.0 // indirect
	github.com/pelletier/go-toml v1.9.5 // indirect
	github.com/quic-go/quic-go v0.60.0 // indirect
	github.com/shopspring/decimal v1.4.0 // indirect
	golang.org/x/crypto v0.54.0 // indirect
	golang.org/x/net v0.57.0 // indirect
	golang.org/x/sys v0.47.0 // indirect
	google.golang.org/protobuf v1.36.11 // indirect
)

replace github.com/MixinNetwork/mixin => /repo

replace github.com/dgraph-io/badger/v4 => github.com/MixinNetwork/badger/v4 v4.9.4-F1
