module verifharness

go 1.26.5

require github.com/MixinNetwork/mixin v0.0.0

require (
	filippo.io/edwards25519 v1.2.0 // indirect
	github.com/klauspost/cpuid/v2 v2.4.0 // indirect
	github.com/pelletier/go-toml v1.9.5 // indirect
	github.com/shopspring/decimal v1.4.0 // indirect
	github.com/zeebo/blake3 v0.2.4 // indirect
)

replace github.com/MixinNetwork/mixin => /repo

replace github.com/dgraph-io/badger/v4 => github.com/MixinNetwork/badger/v4 v4.9.4-F1
