package c03lib

import (
	"encoding/hex"
	"fmt"

	"github.com/MixinNetwork/mixin/crypto"
	"verifharness/vh"
)

// Random histories.  The world (transactions over a small pool of slots,
// deposits, mint batches and output keys, so that contention is the rule) is
// drawn first; the op list is then drawn call by call, biased by a simulated
// state so that most calls reach the interesting branches.  The bias never
// decides a verdict.

func chainHex(i int) string {
	h := crypto.Blake3Hash([]byte(fmt.Sprintf("verif-chain-%d", i)))
	return hx(h[:])
}

func sx(s string) string { return hex.EncodeToString([]byte(s)) }

// deposits that differ only in chain, only in transaction id, only in index,
// and transaction ids containing the separator
func DepositPool() []DepSpec {
	return []DepSpec{
		{chainHex(0), sx("0xaa11"), 0},
		{chainHex(1), sx("0xaa11"), 0},
		{chainHex(0), sx("0xaa12"), 0},
		{chainHex(0), sx("0xaa11"), 1},
		{chainHex(0), sx("0xaa11:1"), 0},
		{chainHex(0), sx("0xaa11"), 10},
		{chainHex(0), sx("0xaa11:1"), 10},
		{chainHex(0), sx("0xaa1"), 110},
		{chainHex(0), sx(":"), 0},
		{chainHex(0), sx("::0"), 0},
	}
}

type Weights struct {
	LockInputs, WriteTx, Finalize, LockGhost, Validate, RawUTXO, RawDep, RawMint, RawGhost int
}

var WeightsC03 = Weights{LockInputs: 36, WriteTx: 16, Finalize: 10, LockGhost: 5, Validate: 2, RawUTXO: 12, RawDep: 7, RawMint: 7, RawGhost: 2}
var WeightsC04 = Weights{LockInputs: 14, WriteTx: 14, Finalize: 18, LockGhost: 20, Validate: 12, RawUTXO: 3, RawDep: 2, RawMint: 2, RawGhost: 12}

func pick(r *vh.Rand, ws []int) int {
	t := 0
	for _, w := range ws {
		t += w
	}
	x := r.Intn(t)
	for i, w := range ws {
		if x < w {
			return i
		}
		x -= w
	}
	return len(ws) - 1
}

func GenWorld(r *vh.Rand, h *History) {
	h.NKeys = 10
	nextKey := 0
	fresh := func() int {
		k := nextKey % h.NKeys
		nextKey++
		return k
	}
	// genesis transactions: the source of output slots
	ng := 2
	for g := 0; g < ng; g++ {
		t := TxSpec{Kind: "genesis", Tag: fmt.Sprintf("g%d-%d", g, r.Intn(1000))}
		no := r.Range(2, 3)
		for o := 0; o < no; o++ {
			t.Outs = append(t.Outs, []int{fresh()})
		}
		h.Txs = append(h.Txs, t)
	}
	pool := func() int { return r.Intn(h.NKeys) }
	outs := func() [][]int {
		var os [][]int
		no := r.Range(1, 2)
		for o := 0; o < no; o++ {
			var ks []int
			nk := r.Range(0, 2)
			for k := 0; k < nk; k++ {
				ks = append(ks, pool())
			}
			os = append(os, ks)
		}
		if r.Chance(1, 8) && len(os[0]) > 0 {
			// repeat a key inside the transaction
			os[len(os)-1] = append(os[len(os)-1], os[0][0])
		}
		return os
	}
	ns := r.Range(4, 6)
	for s := 0; s < ns; s++ {
		t := TxSpec{Kind: "script", Tag: fmt.Sprintf("s%d-%d", s, r.Intn(1000)), Outs: outs()}
		ni := r.Range(1, 3)
		for i := 0; i < ni; i++ {
			src := r.Intn(ng)
			if r.Chance(1, 10) && len(h.Txs) > ng {
				src = r.Intn(len(h.Txs)) // an output of a later (perhaps never finalized) transaction
			}
			idx := r.Intn(len(h.Txs[src].Outs) + 1)
			if r.Chance(4, 5) && len(h.Txs[src].Outs) > 0 {
				idx = r.Intn(len(h.Txs[src].Outs))
			}
			t.Ins = append(t.Ins, SlotRef{Tx: src, Index: uint(idx)})
		}
		h.Txs = append(h.Txs, t)
	}
	dp := DepositPool()
	nd := r.Range(2, 4)
	base := r.Intn(len(dp))
	for d := 0; d < nd; d++ {
		spec := dp[(base+r.Intn(3))%len(dp)]
		h.Txs = append(h.Txs, TxSpec{Kind: "deposit", Tag: fmt.Sprintf("d%d-%d", d, r.Intn(1000)), Dep: &spec, Outs: outs()})
	}
	nm := r.Range(2, 3)
	for m := 0; m < nm; m++ {
		h.Txs = append(h.Txs, TxSpec{Kind: "mint", Tag: fmt.Sprintf("m%d-%d", m, r.Intn(1000)),
			Batch: uint64(7 + r.Intn(2)), Amount: int64(1 + r.Intn(2)), Outs: outs()})
	}
}

func randCaller(r *vh.Rand, w *World) string {
	switch r.Intn(10) {
	case 0:
		return "zero"
	case 1:
		return fmt.Sprintf("exc:%d", r.Intn(3))
	case 2:
		h := crypto.Blake3Hash([]byte(fmt.Sprintf("stranger-%d", r.Intn(3))))
		return hx(h[:])
	}
	return fmt.Sprintf("tx:%d", r.Intn(len(w.Hash)))
}

func (w *World) genOp(r *vh.Rand, d *Dump, ws Weights, batch bool) OpSpec {
	h := w.H
	ntx := len(h.Txs)
	wl := []int{ws.LockInputs, ws.WriteTx, ws.Finalize, ws.LockGhost, ws.Validate, ws.RawUTXO, ws.RawDep, ws.RawMint, ws.RawGhost}
	if batch {
		wl[1] = 0 // WriteTransaction does not take the store mutex; it is not a lock request
	}
	forkP := func() bool { return r.Chance(3, 10) }
	switch pick(r, wl) {
	case 0:
		return OpSpec{Op: "lockinputs", Tx: r.Intn(ntx), Fork: forkP()}
	case 1:
		// prefer a transaction whose inputs are locked by itself
		var good []int
		for i := 0; i < ntx; i++ {
			if cl, _ := w.simWrite(d, &OpSpec{Tx: i}); cl == "ok" {
				good = append(good, i)
			}
		}
		if len(good) > 0 && r.Chance(4, 5) {
			return OpSpec{Op: "writetx", Tx: good[r.Intn(len(good))]}
		}
		return OpSpec{Op: "writetx", Tx: r.Intn(ntx)}
	case 2:
		var good []int
		for i := 0; i < ntx; i++ {
			if d.Body[hx(w.Hash[i][:])] {
				good = append(good, i)
			}
		}
		op := OpSpec{Op: "finalize"}
		n := 1 // a snapshot of round 0 carries exactly one transaction
		for k := 0; k < n; k++ {
			if len(good) > 0 && r.Chance(9, 10) {
				op.Txs = append(op.Txs, good[r.Intn(len(good))])
			} else {
				op.Txs = append(op.Txs, r.Intn(ntx))
			}
		}
		return op
	case 3:
		t := r.Intn(ntx)
		return OpSpec{Op: "lockghost", Tx: t, Keys: flatten(h.Txs[t].Outs), Fork: forkP()}
	case 4:
		return OpSpec{Op: "validate", Tx: r.Intn(ntx), Fork: forkP()}
	case 5:
		op := OpSpec{Op: "lockutxos", As: randCaller(r, w), Fork: forkP()}
		n := r.Range(0, 3)
		for i := 0; i < n; i++ {
			src := r.Intn(ntx)
			idx := uint(r.Intn(3))
			switch r.Intn(12) {
			case 0:
				idx = 1024
			case 1:
				idx = 1025
			}
			if r.Chance(3, 4) {
				src = r.Intn(2)
			}
			op.Slots = append(op.Slots, SlotRef{Tx: src, Index: idx})
		}
		if r.Chance(1, 15) {
			s := crypto.Blake3Hash([]byte("no-such-output"))
			op.Slots = append(op.Slots, SlotRef{Tx: -1, Hash: hx(s[:]), Index: 0})
		}
		return op
	case 6:
		dp := DepositPool()
		spec := dp[r.Intn(len(dp))]
		return OpSpec{Op: "lockdeposit", Dep: &spec, As: randCaller(r, w), Fork: forkP()}
	case 7:
		return OpSpec{Op: "lockmint", Batch: uint64(7 + r.Intn(3)), Amount: int64(1 + r.Intn(2)), As: randCaller(r, w), Fork: forkP()}
	}
	op := OpSpec{Op: "lockghost", As: randCaller(r, w), Fork: r.Bool()}
	if r.Chance(1, 2) {
		op.As = fmt.Sprintf("exc:%d", r.Intn(len(w.Exc)+1))
	}
	n := r.Range(1, 3)
	for i := 0; i < n; i++ {
		op.Keys = append(op.Keys, r.Intn(h.NKeys))
	}
	return op
}

// GenHistory draws a world and nops calls (plus a concurrent batch when
// nconc > 0).
func GenHistory(r *vh.Rand, kind string, ws Weights, nops, nconc int) *History {
	h := &History{Kind: kind}
	GenWorld(r, h)
	// a store-less world only to know the hashes; the simulated state biases the draw
	w, err := BuildWorld(h)
	if err != nil {
		panic(err)
	}
	d := EmptyDump()
	push := func(op OpSpec) {
		h.Ops = append(h.Ops, op)
		_, d = w.Sim(d, &op)
	}
	for g := 0; g < 2 && len(h.Ops)+2 <= nops; g++ {
		if r.Chance(9, 10) {
			push(OpSpec{Op: "writetx", Tx: g})
			push(OpSpec{Op: "finalize", Txs: []int{g}})
		}
	}
	for len(h.Ops) < nops {
		push(w.genOp(r, d, ws, false))
	}
	for i := 0; i < nconc; i++ {
		h.Conc = append(h.Conc, w.genOp(r, d, ws, true))
	}
	return h
}
