package c03lib

import (
	"encoding/hex"
	"fmt"

	"github.com/MixinNetwork/mixin/common"

	"github.com/MixinNetwork/mixin/crypto"
	"verifharness/vh"
)

// Random histories.  The world (transactions over a small pool of slots,
// deposits, mint batches and output keys, so that contention is the rule) is
// drawn first; the op list is then drawn call by call, biased by a simulated
// state so that most calls reach the interesting branches.  The bias never
// decides a verdict.

func chainHex(i int) string {
	h := crypto.Blake3Hash([]byte(fmt.Sprintf("verif-chain-%d", i)))
	return hx(h[:])
}

func sx(s string) string { return hex.EncodeToString([]byte(s)) }

// deposits that differ only in chain, only in transaction id, only in index,
// and transaction ids containing the separator
func DepositPool() []DepSpec {
	return []DepSpec{
		{chainHex(0), sx("0xaa11"), 0},
		{chainHex(1), sx("0xaa11"), 0},
		{chainHex(0), sx("0xaa12"), 0},
		{chainHex(0), sx("0xaa11"), 1},
		{chainHex(0), sx("0xaa11:1"), 0},
		{chainHex(0), sx("0xaa11"), 10},
		{chainHex(0), sx("0xaa11:1"), 10},
		{chainHex(0), sx("0xaa1"), 110},
		{chainHex(0), sx(":"), 0},
		{chainHex(0), sx("::0"), 0},
	}
}

type Weights struct {
	LockInputs, WriteTx, Finalize, LockGhost, Validate, RawUTXO, RawDep, RawMint, RawGhost int
}

var WeightsC03 = Weights{LockInputs: 36, WriteTx: 16, Finalize: 10, LockGhost: 5, Validate: 2, RawUTXO: 12, RawDep: 7, RawMint: 7, RawGhost: 2}
var WeightsC04 = Weights{LockInputs: 14, WriteTx: 14, Finalize: 18, LockGhost: 20, Validate: 12, RawUTXO: 3, RawDep: 2, RawMint: 2, RawGhost: 12}

func pick(r *vh.Rand, ws []int) int {
	t := 0
	for _, w := range ws {
		t += w
	}
	x := r.Intn(t)
	for i, w := range ws {
		if x < w {
			return i
		}
		x -= w
	}
	return len(ws) - 1
}

// indexes congruent mod 128, 256, 2^16-ish boundaries, up to common.InputIndexLimit and one above
func InterestingIndexes() []uint {
	lim := uint(common.InputIndexLimit)
	return []uint{0, 1, 2, 127, 128, 129, 255, 256, 257, 383, 384, 511, 512, 513, 767, 768, 1023, lim, lim + 1}
}

func isWide(h *History) bool { return len(h.Txs) > 0 && len(h.Txs[0].Outs) > 200 }

func GenWorld(r *vh.Rand, h *History, wide bool) {
	h.NKeys = 10
	nextKey := 0
	fresh := func() int {
		k := nextKey % h.NKeys
		nextKey++
		return k
	}
	// genesis transactions: the source of output slots
	ng := 2
	for g := 0; g < ng; g++ {
		t := TxSpec{Kind: "genesis", Tag: fmt.Sprintf("g%d-%d", g, r.Intn(1000))}
		no := r.Range(2, 3)
		for o := 0; o < no; o++ {
			t.Outs = append(t.Outs, []int{fresh()})
		}
		if wide && g == 0 {
			// the largest transaction the encoding allows: output slots 0..255 of one hash
			for len(t.Outs) < common.SliceCountLimit {
				t.Outs = append(t.Outs, []int{})
			}
		}
		h.Txs = append(h.Txs, t)
	}
	pool := func() int { return r.Intn(h.NKeys) }
	outs := func() [][]int {
		var os [][]int
		no := r.Range(1, 2)
		for o := 0; o < no; o++ {
			var ks []int
			nk := r.Range(0, 2)
			for k := 0; k < nk; k++ {
				ks = append(ks, pool())
			}
			os = append(os, ks)
		}
		if r.Chance(1, 8) && len(os[0]) > 0 {
			// repeat a key inside the transaction
			os[len(os)-1] = append(os[len(os)-1], os[0][0])
		}
		return os
	}
	ns := r.Range(4, 6)
	for s := 0; s < ns; s++ {
		t := TxSpec{Kind: "script", Tag: fmt.Sprintf("s%d-%d", s, r.Intn(1000)), Outs: outs()}
		ni := r.Range(1, 3)
		for i := 0; i < ni; i++ {
			src := r.Intn(ng)
			if r.Chance(1, 10) && len(h.Txs) > ng {
				src = r.Intn(len(h.Txs)) // an output of a later (perhaps never finalized) transaction
			}
			idx := r.Intn(len(h.Txs[src].Outs) + 1)
			if r.Chance(4, 5) && len(h.Txs[src].Outs) > 0 {
				idx = r.Intn(len(h.Txs[src].Outs))
			}
			if wide && src == 0 {
				ii := InterestingIndexes()
				idx = int(ii[r.Intn(len(ii)-1)]) // up to the limit (the encoder refuses more)
				if r.Chance(1, 4) {
					idx = r.Intn(common.InputIndexLimit + 1)
				}
			}
			t.Ins = append(t.Ins, SlotRef{Tx: src, Index: uint(idx)})
		}
		h.Txs = append(h.Txs, t)
	}
	dp := DepositPool()
	nd := r.Range(2, 4)
	base := r.Intn(len(dp))
	for d := 0; d < nd; d++ {
		spec := dp[(base+r.Intn(3))%len(dp)]
		h.Txs = append(h.Txs, TxSpec{Kind: "deposit", Tag: fmt.Sprintf("d%d-%d", d, r.Intn(1000)), Dep: &spec, Outs: outs()})
	}
	nm := r.Range(2, 3)
	for m := 0; m < nm; m++ {
		h.Txs = append(h.Txs, TxSpec{Kind: "mint", Tag: fmt.Sprintf("m%d-%d", m, r.Intn(1000)),
			Batch: uint64(7 + r.Intn(2)), Amount: int64(1 + r.Intn(2)), Outs: outs()})
	}
}

func randCaller(r *vh.Rand, w *World) string {
	switch r.Intn(10) {
	case 0:
		return "zero"
	case 1:
		return fmt.Sprintf("exc:%d", r.Intn(3))
	case 2:
		h := crypto.Blake3Hash([]byte(fmt.Sprintf("stranger-%d", r.Intn(3))))
		return hx(h[:])
	}
	return fmt.Sprintf("tx:%d", r.Intn(len(w.Hash)))
}

func (w *World) genOp(r *vh.Rand, d *Dump, ws Weights, batch bool) OpSpec {
	h := w.H
	ntx := len(h.Txs)
	wl := []int{ws.LockInputs, ws.WriteTx, ws.Finalize, ws.LockGhost, ws.Validate, ws.RawUTXO, ws.RawDep, ws.RawMint, ws.RawGhost}
	if batch {
		wl[1] = 0 // WriteTransaction does not take the store mutex; it is not a lock request
	}
	forkP := func() bool { return r.Chance(3, 10) }
	switch pick(r, wl) {
	case 0:
		return OpSpec{Op: "lockinputs", Tx: r.Intn(ntx), Fork: forkP()}
	case 1:
		// prefer a transaction whose inputs are locked by itself
		var good []int
		for i := 0; i < ntx; i++ {
			if cl, _ := w.simWrite(d, &OpSpec{Tx: i}); cl == "ok" {
				good = append(good, i)
			}
		}
		if len(good) > 0 && r.Chance(4, 5) {
			return OpSpec{Op: "writetx", Tx: good[r.Intn(len(good))]}
		}
		return OpSpec{Op: "writetx", Tx: r.Intn(ntx)}
	case 2:
		var good []int
		for i := 0; i < ntx; i++ {
			if d.Body[hx(w.Hash[i][:])] {
				good = append(good, i)
			}
		}
		op := OpSpec{Op: "finalize"}
		n := 1 // a snapshot of round 0 carries exactly one transaction
		for k := 0; k < n; k++ {
			if len(good) > 0 && r.Chance(9, 10) {
				op.Txs = append(op.Txs, good[r.Intn(len(good))])
			} else {
				op.Txs = append(op.Txs, r.Intn(ntx))
			}
		}
		return op
	case 3:
		t := r.Intn(ntx)
		return OpSpec{Op: "lockghost", Tx: t, Keys: flatten(h.Txs[t].Outs), Fork: forkP()}
	case 4:
		return OpSpec{Op: "validate", Tx: r.Intn(ntx), Fork: forkP()}
	case 5:
		op := OpSpec{Op: "lockutxos", As: randCaller(r, w), Fork: forkP()}
		n := r.Range(0, 3)
		for i := 0; i < n; i++ {
			src := r.Intn(ntx)
			idx := uint(r.Intn(3))
			switch r.Intn(12) {
			case 0:
				idx = 1024
			case 1:
				idx = 1025
			}
			if r.Chance(3, 4) {
				src = r.Intn(2)
			}
			if isWide(h) && r.Chance(3, 4) {
				src = 0
				ii := InterestingIndexes()
				idx = ii[r.Intn(len(ii))]
			}
			op.Slots = append(op.Slots, SlotRef{Tx: src, Index: idx})
		}
		if r.Chance(1, 15) {
			s := crypto.Blake3Hash([]byte("no-such-output"))
			op.Slots = append(op.Slots, SlotRef{Tx: -1, Hash: hx(s[:]), Index: 0})
		}
		return op
	case 6:
		dp := DepositPool()
		spec := dp[r.Intn(len(dp))]
		return OpSpec{Op: "lockdeposit", Dep: &spec, As: randCaller(r, w), Fork: forkP()}
	case 7:
		return OpSpec{Op: "lockmint", Batch: uint64(7 + r.Intn(3)), Amount: int64(1 + r.Intn(2)), As: randCaller(r, w), Fork: forkP()}
	}
	op := OpSpec{Op: "lockghost", As: randCaller(r, w), Fork: r.Bool()}
	if r.Chance(1, 2) {
		op.As = fmt.Sprintf("exc:%d", r.Intn(len(w.Exc)+1))
	}
	n := r.Range(1, 3)
	for i := 0; i < n; i++ {
		op.Keys = append(op.Keys, r.Intn(h.NKeys))
	}
	return op
}

// GenHistory draws a world and nops calls (plus a concurrent batch when
// nconc > 0).
func GenHistory(r *vh.Rand, kind string, ws Weights, nops, nconc int) *History {
	return GenHistoryW(r, kind, ws, nops, nconc, false)
}

func GenHistoryW(r *vh.Rand, kind string, ws Weights, nops, nconc int, wide bool) *History {
	h := &History{Kind: kind}
	GenWorld(r, h, wide)
	// a store-less world only to know the hashes; the simulated state biases the draw
	w, err := BuildWorld(h)
	if err != nil {
		panic(err)
	}
	d := EmptyDump()
	push := func(op OpSpec) {
		h.Ops = append(h.Ops, op)
		_, d = w.Sim(d, &op)
	}
	for g := 0; g < 2 && len(h.Ops)+2 <= nops; g++ {
		if r.Chance(9, 10) {
			push(OpSpec{Op: "writetx", Tx: g})
			push(OpSpec{Op: "finalize", Txs: []int{g}})
		}
	}
	for len(h.Ops) < nops {
		push(w.genOp(r, d, ws, false))
	}
	for i := 0; i < nconc; i++ {
		h.Conc = append(h.Conc, w.genOp(r, d, ws, true))
	}
	return h
}

// GenReuse: a holder A of an output key in one of three states (only reserved,
// admitted and persisted, finalized) and a different transaction B that reuses
// the key through every path (admission with and without fork, raw key lock,
// finalization), with random calls in between.
func GenReuse(r *vh.Rand, kind string, ws Weights, noise int) *History {
	h := &History{Kind: kind}
	GenWorld(r, h, false)
	// A and B: two spends (indexes 2 and 3) made to share a key
	a, b := 2, 3
	// keys 7..9 are never used by the genesis transactions
	h.Txs[a].Outs = [][]int{{7}, {8}}
	shared := 7 + r.Intn(2)
	h.Txs[b].Outs = dedup([][]int{{9}, {shared}})
	if r.Bool() {
		h.Txs[b].Outs = dedup([][]int{{shared, 9}})
	}
	// distinct inputs so that both can be locked and persisted
	h.Txs[a].Ins = []SlotRef{{Tx: 0, Index: 0}}
	h.Txs[b].Ins = []SlotRef{{Tx: 0, Index: 1}}
	// C contends for A's slot (output, deposit or mint batch); locked with
	// fork=true it prunes A.  A's key reservations must outlive A's body.
	c := 4
	pruneA := r.Chance(1, 2)
	switch r.Intn(3) {
	case 0:
		h.Txs[c] = TxSpec{Kind: "script", Tag: "C" + h.Txs[c].Tag, Ins: []SlotRef{{Tx: 0, Index: 0}}, Outs: [][]int{{6 - r.Intn(2)*6}}}
	case 1:
		dp := DepositPool()
		d1, d2 := dp[4], dp[4]
		h.Txs[a] = TxSpec{Kind: "deposit", Tag: "A" + h.Txs[a].Tag, Dep: &d1, Outs: h.Txs[a].Outs}
		h.Txs[c] = TxSpec{Kind: "deposit", Tag: "C" + h.Txs[c].Tag, Dep: &d2, Outs: [][]int{{}}}
	case 2:
		h.Txs[a] = TxSpec{Kind: "mint", Tag: "A" + h.Txs[a].Tag, Batch: 9, Amount: 1, Outs: h.Txs[a].Outs}
		h.Txs[c] = TxSpec{Kind: "mint", Tag: "C" + h.Txs[c].Tag, Batch: 9, Amount: int64(1 + r.Intn(2)), Outs: [][]int{{}}}
	}
	w, err := BuildWorld(h)
	if err != nil {
		panic(err)
	}
	d := EmptyDump()
	push := func(op OpSpec) {
		h.Ops = append(h.Ops, op)
		_, d = w.Sim(d, &op)
	}
	some := func(n int) {
		for i := 0; i < n; i++ {
			push(w.genOp(r, d, ws, false))
		}
	}
	push(OpSpec{Op: "writetx", Tx: 0})
	push(OpSpec{Op: "finalize", Txs: []int{0}})
	state := r.Intn(3)
	if r.Bool() {
		push(OpSpec{Op: "validate", Tx: a})
	} else {
		push(OpSpec{Op: "lockghost", Tx: a, Keys: flatten(h.Txs[a].Outs)})
	}
	if state >= 1 {
		push(OpSpec{Op: "lockinputs", Tx: a})
		push(OpSpec{Op: "writetx", Tx: a})
	}
	if state == 2 {
		push(OpSpec{Op: "finalize", Txs: []int{a}})
	}
	if state == 0 && pruneA && r.Bool() {
		push(OpSpec{Op: "lockinputs", Tx: a}) // reserved and locked, never persisted
	}
	if pruneA {
		push(OpSpec{Op: "lockinputs", Tx: c, Fork: true})
		if r.Bool() {
			push(OpSpec{Op: "writetx", Tx: c})
		}
	}
	some(r.Intn(noise + 1))
	for k := r.Range(2, 5); k > 0; k-- {
		switch r.Intn(4) {
		case 0:
			push(OpSpec{Op: "validate", Tx: b, Fork: r.Chance(3, 4)})
		case 1:
			push(OpSpec{Op: "lockghost", Tx: b, Keys: flatten(h.Txs[b].Outs), Fork: r.Chance(3, 4)})
		case 2:
			push(OpSpec{Op: "lockghost", Keys: []int{shared}, As: fmt.Sprintf("tx:%d", b), Fork: true})
		case 3:
			push(OpSpec{Op: "lockinputs", Tx: b, Fork: r.Bool()})
			push(OpSpec{Op: "writetx", Tx: b})
			push(OpSpec{Op: "finalize", Txs: []int{b}})
		}
		some(r.Intn(2))
	}
	return h
}

// dedup removes in-transaction key repeats (they are the subject of other cases)
func dedup(outs [][]int) [][]int {
	seen := map[int]bool{}
	var res [][]int
	for _, o := range outs {
		var ks []int
		for _, k := range o {
			if !seen[k] {
				seen[k] = true
				ks = append(ks, k)
			}
		}
		res = append(res, ks)
	}
	return res
}
