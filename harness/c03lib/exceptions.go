// Package c03lib is shared by the C03 and C04 harnesses (and by constgen for
// the hard-coded ghost key exceptions).
package c03lib

import (
	"encoding/hex"
	"fmt"
	"go/ast"
	"go/parser"
	"go/token"
	"os"
	"path/filepath"
	"strconv"
)

// RepoDir is the tree under check.
func RepoDir() string {
	if d := os.Getenv("VERIF_REPO"); d != "" {
		return d
	}
	return "/repo"
}

// GhostExceptions reads the hard-coded exception transaction hashes out of the
// body of storage.lockGhostKey in the current tree: the string literals of the
// slice handed to slices.Contains.  They are literals inside a function, so the
// only way to follow the tree is its syntax.
func GhostExceptions() ([][]byte, error) {
	path := filepath.Join(RepoDir(), "storage", "badger_utxo.go")
	fset := token.NewFileSet()
	f, err := parser.ParseFile(fset, path, nil, 0)
	if err != nil {
		return nil, err
	}
	var out [][]byte
	found := false
	for _, d := range f.Decls {
		fd, ok := d.(*ast.FuncDecl)
		if !ok || fd.Name.Name != "lockGhostKey" || fd.Body == nil {
			continue
		}
		found = true
		ast.Inspect(fd.Body, func(n ast.Node) bool {
			call, ok := n.(*ast.CallExpr)
			if !ok {
				return true
			}
			sel, ok := call.Fun.(*ast.SelectorExpr)
			if !ok || sel.Sel.Name != "Contains" || len(call.Args) != 2 {
				return true
			}
			lit, ok := call.Args[0].(*ast.CompositeLit)
			if !ok {
				return true
			}
			for _, e := range lit.Elts {
				bl, ok := e.(*ast.BasicLit)
				if !ok || bl.Kind != token.STRING {
					err = fmt.Errorf("non-literal exception entry in lockGhostKey")
					return false
				}
				s, uerr := strconv.Unquote(bl.Value)
				if uerr != nil {
					err = uerr
					return false
				}
				b, herr := hex.DecodeString(s)
				if herr != nil || len(b) != 32 {
					// an entry that is not the hex form of a hash can never equal tx.String()
					continue
				}
				out = append(out, b)
			}
			return true
		})
	}
	if err != nil {
		return nil, err
	}
	if !found {
		return nil, fmt.Errorf("storage.lockGhostKey not found in %s", path)
	}
	return out, nil
}
