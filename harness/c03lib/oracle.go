package c03lib

import (
	"fmt"
	"sort"
)

// The oracle is a transcription of the property text (C03, C04) over what the
// real store shows before and after a call.  It does not use the model.

type Failure struct {
	Sig  string
	What string
}

// documented exceptions (property text: "the three hard-coded historical exceptions")
var DocumentedExceptions = map[string]bool{
	"c63b6373652def5999c1d951fcb8f064db67b7d18565847b921b21639e15dddd": true,
	"60deaf2471bb0b6481efe9080d8852b020ab2941e7faae21989d2404f34284ee": true,
	"a558b1efbe27eb6a6f902fd97d4b7e2e3099e6edde1fe6e8e41204e0685fe426": true,
}

// a lock target in one of the three slot families
type target struct {
	fam    string // U D M
	key    string
	batch  uint64
	amount string // mint units
}

func (w *World) holder(d *Dump, t target) (string, bool) {
	switch t.fam {
	case "U":
		v, ok := d.UTXO[t.key]
		return v, ok
	case "D":
		v, ok := d.Dep[t.key]
		return v, ok
	}
	v, ok := d.Mint[t.batch]
	return v.Tx, ok
}

// lock request decoded: targets, caller, fork; ok=false when op is not a slot lock
func (w *World) lockTargets(op *OpSpec) (ts []target, caller string, isLock bool) {
	depT := func(d *DepSpec) target {
		k := d.Data().UniqueKey()
		return target{fam: "D", key: hx(k[:])}
	}
	switch op.Op {
	case "lockinputs":
		s := &w.H.Txs[op.Tx]
		h := w.Hash[op.Tx]
		caller = hx(h[:])
		switch s.Kind {
		case "script":
			for _, r := range s.Ins {
				hh, i := w.slot(r)
				ts = append(ts, target{fam: "U", key: slotKey(hh, i)})
			}
		case "deposit":
			ts = append(ts, depT(s.Dep))
		case "mint":
			ts = append(ts, target{fam: "M", batch: s.Batch, amount: unitsOf(s.Amount)})
		case "genesis":
			ts = append(ts, target{fam: "U", key: zeroHex + "/0"})
		}
		return ts, caller, true
	case "lockutxos":
		h := w.caller(op)
		for _, r := range op.Slots {
			hh, i := w.slot(r)
			ts = append(ts, target{fam: "U", key: slotKey(hh, i)})
		}
		return ts, hx(h[:]), true
	case "lockdeposit":
		h := w.caller(op)
		return []target{depT(op.Dep)}, hx(h[:]), true
	case "lockmint":
		h := w.caller(op)
		return []target{{fam: "M", batch: op.Batch, amount: unitsOf(op.Amount)}}, hx(h[:]), true
	}
	return nil, "", false
}

func unitsOf(amount int64) string { return fmt.Sprintf("%d00000000", amount) }

// every slot of every family in a dump
func allSlots(d *Dump) []target {
	var ts []target
	for k := range d.UTXO {
		ts = append(ts, target{fam: "U", key: k})
	}
	for k := range d.Dep {
		ts = append(ts, target{fam: "D", key: k})
	}
	for b := range d.Mint {
		ts = append(ts, target{fam: "M", batch: b})
	}
	sort.Slice(ts, func(i, j int) bool {
		if ts[i].fam != ts[j].fam {
			return ts[i].fam < ts[j].fam
		}
		if ts[i].key != ts[j].key {
			return ts[i].key < ts[j].key
		}
		return ts[i].batch < ts[j].batch
	})
	return ts
}

func (t target) String() string {
	if t.fam == "M" {
		return fmt.Sprintf("mint batch %d", t.batch)
	}
	return t.fam + " " + t.key
}

// CheckStep: clauses of C03 and C04 on one sequential call.
func (w *World) CheckStep(op *OpSpec, pre, post *Dump, class string) []Failure {
	var fs []Failure
	add := func(sig, what string) { fs = append(fs, Failure{sig, what}) }

	// a failed call commits nothing (multi-input calls are all-or-nothing)
	if class != "ok" && !pre.Equal(post) {
		add("failed-call-changed-state", fmt.Sprintf("%s returned %s but the stored state changed", op.Op, class))
	}

	ts, caller, isLock := w.lockTargets(op)
	if isLock {
		conflict, allMine := false, len(ts) > 0
		for _, t := range ts {
			h, ok := w.holder(pre, t)
			if ok && h != zeroHex && h != caller {
				conflict = true
			}
			mine := ok && h == caller && caller != zeroHex
			if t.fam == "M" && mine && pre.Mint[t.batch].Amount != t.amount {
				mine = false
				conflict = true // same holder, different amount: a different distribution
			}
			if t.fam == "U" {
				var idx uint
				fmt.Sscanf(t.key[65:], "%d", &idx)
				if idx > 1024 {
					mine = false
				}
			}
			if !mine {
				allMine = false
			}
		}
		if conflict && !op.Fork && class == "ok" {
			add("conflict-accepted", fmt.Sprintf("%s fork=false for %s succeeded on a slot held by another transaction", op.Op, caller))
		}
		if allMine && (class != "ok" || !pre.Equal(post)) {
			add("relock-not-idempotent", fmt.Sprintf("%s by the holder itself returned %s / changed the state", op.Op, class))
		}
		if class == "ok" {
			for _, t := range ts {
				h, ok := w.holder(post, t)
				if !ok || h != caller {
					add("lock-not-recorded", fmt.Sprintf("%s succeeded but %s is held by %s", op.Op, t, h))
				}
			}
		}
	}

	// slot identity: a slot is exactly (hash, index).  A lock of a slot that does
	// not exist must fail; a lock call changes no slot it did not name.
	if isLock {
		named := map[string]bool{}
		for _, t := range ts {
			named[t.String()] = true
			if _, ok := w.holder(pre, t); !ok && t.fam == "U" && class == "ok" {
				add("missing-slot-locked", fmt.Sprintf("%s succeeded on %s, which does not exist", op.Op, t))
			}
		}
		for _, t := range allSlots(pre) {
			h1, _ := w.holder(pre, t)
			h2, ok2 := w.holder(post, t)
			if (!ok2 || h1 != h2) && !named[t.String()] {
				add("untargeted-slot-changed", fmt.Sprintf("%s changed %s (%s -> %s), a slot it did not name", op.Op, t, h1, h2))
			}
		}
	}
	// a stored body disappears only through a fork lock call
	if !(isLock && op.Fork) {
		for b := range pre.Body {
			if !post.Body[b] {
				add("body-removed", fmt.Sprintf("%s removed the stored body of %s", op.Op, b))
			}
		}
	}

	// holders: a finalized holder is never displaced; any change of a holder is a
	// fork takeover of a pending transaction whose body is gone afterwards
	for _, t := range allSlots(pre) {
		h, _ := w.holder(pre, t)
		if h == zeroHex {
			continue
		}
		h2, ok2 := w.holder(post, t)
		if ok2 && h2 == h {
			continue
		}
		if pre.Final[h] {
			add("finalized-displaced", fmt.Sprintf("%s: %s was held by finalized %s, now %s", op.Op, t, h, h2))
			continue
		}
		if !isLock || !op.Fork {
			add("holder-changed-without-fork", fmt.Sprintf("%s: holder of %s changed from %s to %s", op.Op, t, h, h2))
		}
		if post.Body[h] {
			add("takeover-kept-body", fmt.Sprintf("%s: %s taken from pending %s whose body is still stored", op.Op, t, h))
		}
	}

	// C04: bindings only grow, never change
	for k, tx := range pre.Ghost {
		if tx2, ok := post.Ghost[k]; !ok || tx2 != tx {
			add("binding-changed", fmt.Sprintf("%s: key %s was bound to %s, now %s", op.Op, k, tx, tx2))
		}
	}
	switch op.Op {
	case "lockghost", "validate":
		var keys []int
		var caller string
		if op.Op == "validate" {
			keys = flatten(w.H.Txs[op.Tx].Outs)
			caller = hx(w.Hash[op.Tx][:])
		} else {
			keys = op.Keys
			c := w.caller(op)
			caller = hx(c[:])
		}
		seen := map[int]bool{}
		dup, foreign := false, false
		for _, k := range keys {
			if seen[k] {
				dup = true
			}
			seen[k] = true
			if tx, ok := pre.Ghost[hx(w.Keys[k][:])]; ok && tx != caller {
				foreign = true
			}
		}
		excepted := op.Fork && DocumentedExceptions[caller]
		if dup && class == "ok" {
			add("duplicate-key-accepted", op.Op+" with a repeated key succeeded")
		}
		if foreign && !excepted && class == "ok" {
			add("foreign-key-accepted", fmt.Sprintf("%s for %s succeeded on a key bound to another transaction", op.Op, caller))
		}
		if class == "ok" && !excepted {
			for _, k := range keys {
				if post.Ghost[hx(w.Keys[k][:])] != caller {
					add("binding-not-recorded", op.Op+" succeeded but a key is not bound to the caller")
				}
			}
		}
	case "finalize":
		for _, ti := range op.Txs {
			me := hx(w.Hash[ti][:])
			if pre.Final[me] {
				continue
			}
			for _, k := range flatten(w.H.Txs[ti].Outs) {
				if tx, ok := pre.Ghost[hx(w.Keys[k][:])]; ok && tx != me && class == "ok" {
					add("finalize-foreign-key-accepted", fmt.Sprintf("finalizing %s succeeded although its output key is bound to %s", me, tx))
				}
			}
			if class == "ok" {
				for _, k := range flatten(w.H.Txs[ti].Outs) {
					if post.Ghost[hx(w.Keys[k][:])] != me {
						add("binding-not-recorded", "finalize succeeded but an output key is not bound to the transaction")
					}
				}
				if !post.Final[me] {
					add("finalization-not-recorded", "finalize succeeded without a finalization record")
				}
			}
		}
	}
	return fs
}

// CheckUniqueKeys: different deposits never share a unique key, equal ones do;
// the key is the hash of the harness' rendering of the text.
func (w *World) CheckUniqueKeys() []Failure {
	var fs []Failure
	var all []*DepSpec
	seen := map[string]bool{}
	col := func(d *DepSpec) {
		if d != nil && !seen[d.ident()] {
			seen[d.ident()] = true
			all = append(all, d)
		}
	}
	for i := range w.H.Txs {
		col(w.H.Txs[i].Dep)
	}
	for i := range w.H.Ops {
		col(w.H.Ops[i].Dep)
	}
	for i := range w.H.Conc {
		col(w.H.Conc[i].Dep)
	}
	col(w.H.Render)
	for i, a := range all {
		ka := a.Data().UniqueKey()
		for _, b := range all[i+1:] {
			kb := b.Data().UniqueKey()
			if ka == kb {
				fs = append(fs, Failure{"unique-key-collision", fmt.Sprintf("deposits %s and %s have the same unique key", a.ident(), b.ident())})
			}
		}
	}
	return fs
}
