package c03lib

import (
	"fmt"
)

// A small sequential simulator of the calls that appear in concurrent batches,
// used ONLY to search for a sequential order explaining what a concurrent run
// showed (results + final dump).  The order found is then validated by the Coq
// model (case CConc); the property oracle does not depend on this file.

func (d *Dump) clone() *Dump {
	n := &Dump{UTXO: map[string]string{}, Dep: map[string]string{}, Mint: map[uint64]MintRec{},
		Body: map[string]bool{}, Final: map[string]bool{}, Ghost: map[string]string{}}
	for k, v := range d.UTXO {
		n.UTXO[k] = v
	}
	for k, v := range d.Dep {
		n.Dep[k] = v
	}
	for k, v := range d.Mint {
		n.Mint[k] = v
	}
	for k, v := range d.Body {
		n.Body[k] = v
	}
	for k, v := range d.Final {
		n.Final[k] = v
	}
	for k, v := range d.Ghost {
		n.Ghost[k] = v
	}
	return n
}

func simPrune(d *Dump, h string) bool {
	if d.Final[h] {
		return false
	}
	delete(d.Body, h)
	return true
}

func (w *World) simGhost(d *Dump, key, tx string, fork bool) bool {
	by, ok := d.Ghost[key]
	if !ok {
		d.Ghost[key] = tx
		return true
	}
	if by == zeroHex {
		return false
	}
	if fork {
		for _, e := range w.Exc {
			if hx(e) == tx {
				return true
			}
		}
	}
	return by == tx
}

// simStep returns the class and the next state (the same state when not ok).
func (w *World) simStep(d0 *Dump, op *OpSpec) (string, *Dump) {
	d := d0.clone()
	ts, caller, isLock := w.lockTargets(op)
	if isLock {
		for _, t := range ts {
			switch t.fam {
			case "U":
				var idx uint
				fmt.Sscanf(t.key[65:], "%d", &idx)
				if idx > 1024 {
					return "panic", d0
				}
				l, ok := d.UTXO[t.key]
				if !ok {
					return "err", d0
				}
				if l != zeroHex && l != caller {
					if !op.Fork || !simPrune(d, l) {
						return "err", d0
					}
				}
				d.UTXO[t.key] = caller
			case "D":
				l, ok := d.Dep[t.key]
				if ok && l != caller {
					if !op.Fork || !simPrune(d, l) {
						return "err", d0
					}
				}
				d.Dep[t.key] = caller
			case "M":
				m, ok := d.Mint[t.batch]
				if ok && !(m.Tx == caller && m.Amount == t.amount) {
					if !op.Fork || !simPrune(d, m.Tx) {
						return "err", d0
					}
				}
				d.Mint[t.batch] = MintRec{caller, t.amount}
			}
		}
		return "ok", d
	}
	switch op.Op {
	case "lockghost", "validate":
		keys := op.Keys
		var tx string
		if op.Op == "validate" {
			keys = flatten(w.H.Txs[op.Tx].Outs)
			tx = hx(w.Hash[op.Tx][:])
		} else {
			c := w.caller(op)
			tx = hx(c[:])
		}
		seen := map[int]bool{}
		for _, k := range keys {
			if seen[k] {
				return "err", d0
			}
			seen[k] = true
			if !w.simGhost(d, hx(w.Keys[k][:]), tx, op.Fork) {
				return "err", d0
			}
		}
		return "ok", d
	case "finalize":
		for _, ti := range op.Txs {
			if !d.Body[hx(w.Hash[ti][:])] {
				return "panic", d0
			}
		}
		for _, ti := range op.Txs {
			me := hx(w.Hash[ti][:])
			if d.Final[me] {
				continue
			}
			d.Final[me] = true
			for i, ks := range w.H.Txs[ti].Outs {
				for _, k := range ks {
					if !w.simGhost(d, hx(w.Keys[k][:]), me, true) {
						return "err", d0
					}
				}
				d.UTXO[slotKey(w.Hash[ti], uint(i))] = zeroHex
			}
		}
		return "ok", d
	}
	panic("sim: op " + op.Op)
}

// Linearize searches an order of the batch (respecting each goroutine's own
// program order) whose sequential execution from pre gives exactly the observed
// classes and the observed final dump.  lanes[g] lists the batch indices issued
// by goroutine g, in order.
func (w *World) Linearize(pre *Dump, batch []OpSpec, lanes [][]int, classes []string, final *Dump) ([]int, bool) {
	pos := make([]int, len(lanes))
	var order []int
	budget := 400000
	target := final.String()
	dead := map[string]bool{} // (positions, state) from which no completion exists
	var dfs func(d *Dump) bool
	dfs = func(d *Dump) bool {
		if len(order) == len(batch) {
			return d.String() == target
		}
		budget--
		if budget < 0 {
			return false
		}
		memo := fmt.Sprint(pos) + d.String()
		if dead[memo] {
			return false
		}
		defer func() {
			if budget >= 0 {
				dead[memo] = true
			}
		}()
		for g := range lanes {
			if pos[g] >= len(lanes[g]) {
				continue
			}
			i := lanes[g][pos[g]]
			cl, nd := w.simStep(d, &batch[i])
			if cl != classes[i] {
				continue
			}
			pos[g]++
			order = append(order, i)
			if dfs(nd) {
				return true
			}
			order = order[:len(order)-1]
			pos[g]--
		}
		return false
	}
	ok := dfs(pre)
	return order, ok
}
