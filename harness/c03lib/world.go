package c03lib

import (
	"encoding/hex"
	"fmt"
	"math/big"
	"os"
	"path/filepath"
	"sort"
	"strings"
	"sync"

	"github.com/MixinNetwork/mixin/common"
	"github.com/MixinNetwork/mixin/config"
	"github.com/MixinNetwork/mixin/crypto"
	"github.com/MixinNetwork/mixin/storage"
	"verifharness/vh"
)

// ---- case description (self-contained, replayable) ---------------------------

type SlotRef struct {
	Tx    int    `json:"tx"`            // index of the source transaction in History.Txs, or -1
	Hash  string `json:"hash,omitempty"` // raw hash (hex) when Tx == -1
	Index uint   `json:"index"`
}

type DepSpec struct {
	Chain string `json:"chain"` // hex of the 32-byte chain id
	TxID  string `json:"txid"`  // hex of the bytes of the Go string
	Index uint64 `json:"index"`
}

type TxSpec struct {
	Kind   string    `json:"kind"` // genesis | script | deposit | mint
	Tag    string    `json:"tag"`  // makes the payload unique
	Ins    []SlotRef `json:"ins,omitempty"`
	Dep    *DepSpec  `json:"dep,omitempty"`
	Batch  uint64    `json:"batch,omitempty"`
	Amount int64     `json:"amount,omitempty"` // mint amount, in whole tokens
	Outs   [][]int   `json:"outs"`             // key indices per output
}

type OpSpec struct {
	Op     string    `json:"op"` // lockinputs lockutxos lockdeposit lockmint lockghost validate writetx finalize
	Tx     int       `json:"tx"`
	Txs    []int     `json:"txs,omitempty"`
	Slots  []SlotRef `json:"slots,omitempty"`
	Dep    *DepSpec  `json:"dep,omitempty"`
	Batch  uint64    `json:"batch,omitempty"`
	Amount int64     `json:"amount,omitempty"`
	Keys   []int     `json:"keys,omitempty"`
	As     string    `json:"as,omitempty"` // caller hash for raw calls: tx:<i> | exc:<i> | zero | hex
	Fork   bool      `json:"fork"`
}

type History struct {
	Kind  string   `json:"kind"`
	NKeys int      `json:"nkeys"`
	Txs   []TxSpec `json:"txs"`
	Ops   []OpSpec `json:"ops"`
	Conc  []OpSpec `json:"conc,omitempty"` // issued concurrently after Ops
	// corpus-only extras
	Render *DepSpec `json:"render,omitempty"`
	VoOuts [][]int  `json:"vo_outs,omitempty"`
}

// ---- the real world ---------------------------------------------------------

type World struct {
	H      *History
	dir    string
	Store  *storage.BadgerStore
	Txs    []*common.VersionedTransaction
	Hash   []crypto.Hash
	Keys   []crypto.Key
	nodes  []crypto.Hash
	snapN  int
	Exc    [][]byte
	depKey map[string]*DepSpec // unique key hex -> deposit
}

var DebugPanics bool

var (
	cfgOnce sync.Once
	cfg     *config.Custom
)

func loadConfig() *config.Custom {
	cfgOnce.Do(func() {
		c, err := config.Initialize(filepath.Join(RepoDir(), "config", "config.example.toml"))
		if err == nil {
			cfg = c
		}
	})
	return cfg
}

func hx(b []byte) string { return hex.EncodeToString(b) }

func mustHash(s string) crypto.Hash {
	b, err := hex.DecodeString(s)
	if err != nil || len(b) != 32 {
		panic("bad hash " + s)
	}
	var h crypto.Hash
	copy(h[:], b)
	return h
}

func seededKey(i int) crypto.Key {
	seed := make([]byte, 64)
	copy(seed, []byte(fmt.Sprintf("verif-c03-key-%d", i)))
	for j := 32; j < 64; j++ {
		seed[j] = byte(i*7 + j)
	}
	return crypto.NewKeyFromSeed(seed).Public()
}

func (d *DepSpec) Data() *common.DepositData {
	tx, err := hex.DecodeString(d.TxID)
	if err != nil {
		panic(err)
	}
	return &common.DepositData{
		Chain:       mustHash(d.Chain),
		AssetKey:    "0xa974c709cfb4566686553a20790685a47aceaa33",
		Transaction: string(tx),
		Index:       d.Index,
		Amount:      common.NewInteger(1),
	}
}

// RenderText is the harness' own transcription of the text UniqueKey hashes;
// checked against the real UniqueKey (through the hashes) and against the model.
func (d *DepSpec) RenderText() []byte {
	tx, _ := hex.DecodeString(d.TxID)
	s := d.Chain + ":" + string(tx) + ":" + new(big.Int).SetUint64(d.Index).String()
	return []byte(s)
}

func (d *DepSpec) ident() string { return fmt.Sprintf("%s|%s|%d", d.Chain, d.TxID, d.Index) }

// BuildWorld builds the transactions (hashes, keys) without opening a store.
func BuildWorld(h *History) (*World, error) {
	w := &World{H: h, depKey: map[string]*DepSpec{}}
	var err error
	w.Exc, err = GhostExceptions()
	if err != nil {
		return nil, err
	}
	for i := 0; i < h.NKeys; i++ {
		w.Keys = append(w.Keys, seededKey(i))
	}
	n := len(h.Ops) + len(h.Conc) + 1
	for i := 0; i < n; i++ {
		w.nodes = append(w.nodes, crypto.Blake3Hash([]byte(fmt.Sprintf("verif-c03-node-%d", i))))
	}
	for i := range h.Txs {
		ver := w.build(&h.Txs[i])
		w.Txs = append(w.Txs, ver)
		w.Hash = append(w.Hash, ver.PayloadHash())
	}
	reg := func(d *DepSpec) {
		if d != nil {
			k := d.Data().UniqueKey()
			w.depKey[hx(k[:])] = d
		}
	}
	for i := range h.Txs {
		reg(h.Txs[i].Dep)
	}
	for i := range h.Ops {
		reg(h.Ops[i].Dep)
	}
	for i := range h.Conc {
		reg(h.Conc[i].Dep)
	}
	return w, nil
}

// NewWorld builds the world on a fresh real Badger store in a temp directory.
func NewWorld(h *History) (*World, error) {
	w, err := BuildWorld(h)
	if err != nil {
		return nil, err
	}
	// a memory-backed directory when the machine has one: Badger runs with
	// SyncWrites, and fsync on a disk dominates the run otherwise
	base := ""
	if st, err := os.Stat("/dev/shm"); err == nil && st.IsDir() && os.Getenv("VERIF_C03_DISK") == "" {
		base = "/dev/shm"
	}
	dir, err := os.MkdirTemp(base, "verif-c03-")
	if err != nil {
		return nil, err
	}
	st, err := storage.NewBadgerStore(loadConfig(), dir)
	if err != nil {
		os.RemoveAll(dir)
		return nil, err
	}
	w.dir, w.Store = dir, st
	if err := st.VerifC03Setup(w.nodes); err != nil {
		w.Close()
		return nil, err
	}
	return w, nil
}

func EmptyDump() *Dump {
	return &Dump{UTXO: map[string]string{}, Dep: map[string]string{}, Mint: map[uint64]MintRec{},
		Body: map[string]bool{}, Final: map[string]bool{}, Ghost: map[string]string{}}
}

func (w *World) Close() {
	if w.Store != nil {
		w.Store.Close()
	}
	if w.dir != "" {
		os.RemoveAll(w.dir)
	}
}

func (w *World) slot(r SlotRef) (crypto.Hash, uint) {
	if r.Tx >= 0 {
		return w.Hash[r.Tx], r.Index
	}
	return mustHash(r.Hash), r.Index
}

func (w *World) outputs(outs [][]int) []*common.Output {
	var res []*common.Output
	for _, ks := range outs {
		o := &common.Output{
			Type:   common.OutputTypeScript,
			Amount: common.NewInteger(1),
			Script: common.NewThresholdScript(1),
			Mask:   seededKey(1000),
		}
		for _, k := range ks {
			key := w.Keys[k]
			o.Keys = append(o.Keys, &key)
		}
		res = append(res, o)
	}
	return res
}

func (w *World) build(t *TxSpec) *common.VersionedTransaction {
	tx := common.NewTransactionV5(common.XINAssetId)
	switch t.Kind {
	case "genesis":
		tx.Inputs = []*common.Input{{Genesis: []byte("verif-genesis-" + t.Tag)}}
	case "script":
		for _, r := range t.Ins {
			h, i := w.slot(r)
			tx.AddInput(h, i)
		}
	case "deposit":
		// an asset of its own per chain, so that the stored asset info never
		// disagrees with the deposit (asset bookkeeping is not part of C03/C04)
		d := t.Dep.Data()
		tx.Asset = crypto.Sha256Hash(append(d.Chain[:], []byte(d.AssetKey)...))
		tx.Inputs = []*common.Input{{Deposit: d}}
	case "mint":
		tx.Inputs = []*common.Input{{Mint: &common.MintData{Group: "UNIVERSAL", Batch: t.Batch, Amount: common.NewInteger(uint64(t.Amount))}}}
	default:
		panic("kind " + t.Kind)
	}
	tx.Outputs = w.outputs(t.Outs)
	tx.Extra = []byte(t.Tag)
	return tx.AsVersioned()
}

func (w *World) caller(op *OpSpec) crypto.Hash {
	switch {
	case op.As == "" || op.As == "tx":
		return w.Hash[op.Tx]
	case strings.HasPrefix(op.As, "tx:"):
		var i int
		fmt.Sscanf(op.As, "tx:%d", &i)
		return w.Hash[i]
	case strings.HasPrefix(op.As, "exc:"):
		var i int
		fmt.Sscanf(op.As, "exc:%d", &i)
		var h crypto.Hash
		if i < len(w.Exc) {
			copy(h[:], w.Exc[i])
		} else {
			h = crypto.Blake3Hash([]byte("no-such-exception"))
		}
		return h
	case op.As == "zero":
		return crypto.Hash{}
	}
	return mustHash(op.As)
}

func (w *World) keyPtrs(ix []int) []*crypto.Key {
	var ks []*crypto.Key
	for _, i := range ix {
		k := w.Keys[i]
		ks = append(ks, &k)
	}
	return ks
}

func flatten(outs [][]int) []int {
	var r []int
	for _, o := range outs {
		r = append(r, o...)
	}
	return r
}

// Exec runs one op on the real store; snapSeq numbers the snapshot a finalize uses.
func (w *World) Exec(op *OpSpec, snapSeq int) string {
	var err error
	pan, pv := vh.Catch(func() { err = w.exec(op, snapSeq) })
	if pan {
		if DebugPanics {
			fmt.Printf("panic in %s: %v\n", op.Op, pv)
		}
		return "panic"
	}
	if err != nil {
		return "err"
	}
	return "ok"
}

func (w *World) exec(op *OpSpec, snapSeq int) error {
	switch op.Op {
	case "lockinputs":
		return w.Txs[op.Tx].LockInputs(w.Store, op.Fork)
	case "lockutxos":
		var ins []*common.Input
		for _, r := range op.Slots {
			h, i := w.slot(r)
			ins = append(ins, &common.Input{Hash: h, Index: i})
		}
		return w.Store.LockUTXOs(ins, w.caller(op), op.Fork)
	case "lockdeposit":
		return w.Store.LockDepositInput(op.Dep.Data(), w.caller(op), op.Fork)
	case "lockmint":
		return w.Store.LockMintInput(&common.MintData{Group: "UNIVERSAL", Batch: op.Batch, Amount: common.NewInteger(uint64(op.Amount))}, w.caller(op), op.Fork)
	case "lockghost":
		return w.Store.LockGhostKeys(w.keyPtrs(op.Keys), w.caller(op), op.Fork)
	case "validate":
		ver := w.Txs[op.Tx]
		amount := common.NewInteger(uint64(len(ver.Outputs)))
		return common.VerifC04ValidateOutputs(&ver.Transaction, w.Store, w.Hash[op.Tx], amount, op.Fork)
	case "writetx":
		return w.Store.WriteTransaction(w.Txs[op.Tx])
	case "finalize":
		node := w.nodes[snapSeq]
		var hs []crypto.Hash
		for _, i := range op.Txs {
			hs = append(hs, w.Hash[i])
		}
		snap := &common.SnapshotWithTopologicalOrder{
			Snapshot: &common.Snapshot{
				Version:      common.SnapshotVersionCommonEncoding,
				NodeId:       node,
				RoundNumber:  0,
				Timestamp:    uint64(1700000000000000000 + snapSeq),
				Transactions: hs,
			},
			TopologicalOrder: uint64(snapSeq),
		}
		snap.Hash = snap.PayloadHash()
		return w.Store.WriteSnapshot(snap, []crypto.Hash{node})
	}
	panic("op " + op.Op)
}

// ---- dumps ------------------------------------------------------------------

type MintRec struct {
	Tx     string
	Amount string // units
}

type Dump struct {
	UTXO  map[string]string // hash/index -> lock
	Dep   map[string]string // unique key -> holder
	Mint  map[uint64]MintRec
	Body  map[string]bool
	Final map[string]bool
	Ghost map[string]string
}

const zeroHex = "0000000000000000000000000000000000000000000000000000000000000000"

func slotKey(h crypto.Hash, i uint) string { return fmt.Sprintf("%s/%d", hx(h[:]), i) }

func (w *World) Dump() *Dump {
	st, err := w.Store.VerifC03Dump()
	if err != nil {
		panic(err)
	}
	d := &Dump{UTXO: map[string]string{}, Dep: map[string]string{}, Mint: map[uint64]MintRec{},
		Body: map[string]bool{}, Final: map[string]bool{}, Ghost: map[string]string{}}
	for _, u := range st.UTXO {
		d.UTXO[slotKey(u.Hash, u.Index)] = hx(u.Lock[:])
	}
	for _, p := range st.Deposit {
		d.Dep[hx(p.Key[:])] = hx(p.Tx[:])
	}
	for _, m := range st.Mint {
		d.Mint[m.Batch] = MintRec{hx(m.Tx[:]), common.VerifIntegerBig(m.Amount).String()}
	}
	for _, h := range st.Body {
		d.Body[hx(h[:])] = true
	}
	for _, h := range st.Final {
		d.Final[hx(h[:])] = true
	}
	for _, p := range st.Ghost {
		d.Ghost[hx(p.Key[:])] = hx(p.Tx[:])
	}
	return d
}

func (a *Dump) Equal(b *Dump) bool { return a.String() == b.String() }

func (a *Dump) String() string {
	var sb strings.Builder
	keys := func(m map[string]string) []string {
		var ks []string
		for k := range m {
			ks = append(ks, k)
		}
		sort.Strings(ks)
		return ks
	}
	for _, k := range keys(a.UTXO) {
		fmt.Fprintf(&sb, "U %s=%s\n", k, a.UTXO[k])
	}
	for _, k := range keys(a.Dep) {
		fmt.Fprintf(&sb, "D %s=%s\n", k, a.Dep[k])
	}
	var bs []uint64
	for b := range a.Mint {
		bs = append(bs, b)
	}
	sort.Slice(bs, func(i, j int) bool { return bs[i] < bs[j] })
	for _, b := range bs {
		fmt.Fprintf(&sb, "M %d=%s,%s\n", b, a.Mint[b].Tx, a.Mint[b].Amount)
	}
	bk := func(m map[string]bool) []string {
		var ks []string
		for k := range m {
			ks = append(ks, k)
		}
		sort.Strings(ks)
		return ks
	}
	for _, k := range bk(a.Body) {
		fmt.Fprintf(&sb, "B %s\n", k)
	}
	for _, k := range bk(a.Final) {
		fmt.Fprintf(&sb, "F %s\n", k)
	}
	for _, k := range keys(a.Ghost) {
		fmt.Fprintf(&sb, "G %s=%s\n", k, a.Ghost[k])
	}
	return sb.String()
}

// ---- Coq terms --------------------------------------------------------------

// Tbl renames the 32-byte values of a history: distinct values are numbered
// 1, 2, 3, ... in order of first appearance, the zero hash stays 0 and the k-th
// hard-coded exception hash is written (exc k).  The model uses these values
// only through equality tests (and the tests against 0 and the exceptions).
type Tbl struct {
	idx map[string]int
	exc map[string]int
}

func NewTbl() *Tbl { return &Tbl{idx: map[string]int{}, exc: map[string]int{}} }

func (w *World) NewTbl() *Tbl {
	t := NewTbl()
	for i, e := range w.Exc {
		if _, dup := t.exc[hx(e)]; !dup {
			t.exc[hx(e)] = i
		}
	}
	return t
}

func (t *Tbl) H(hexv string) string {
	if hexv == zeroHex {
		return "0"
	}
	if k, ok := t.exc[hexv]; ok {
		return fmt.Sprintf("(exc %d)", k)
	}
	i, ok := t.idx[hexv]
	if !ok {
		i = len(t.idx) + 1
		t.idx[hexv] = i
	}
	return fmt.Sprintf("%d", i)
}

func (t *Tbl) HH(h crypto.Hash) string { return t.H(hx(h[:])) }
func (t *Tbl) HK(k crypto.Key) string  { return t.H(hx(k[:])) }

func coqBool(b bool) string { return vh.Bool(b) }

func nu(v uint64) string { return fmt.Sprintf("%d", v) }

// plain byte list (numerals are read in N scope: the case term is wrapped in ( )%N)
func plainBytes(b []byte) string {
	if len(b) == 0 {
		return "(@nil N)"
	}
	var el []string
	for _, c := range b {
		el = append(el, fmt.Sprintf("%d", c))
	}
	return "[" + strings.Join(el, ";") + "]"
}

func (w *World) coqDep(t *Tbl, d *DepSpec) string {
	tx, _ := hex.DecodeString(d.TxID)
	return fmt.Sprintf("{| d_chain := %s; d_tx := %s; d_index := %s |}", t.H(d.Chain), plainBytes(tx), nu(d.Index))
}

func (w *World) coqSlot(t *Tbl, r SlotRef) string {
	h, i := w.slot(r)
	return fmt.Sprintf("(%s, %d)", t.HH(h), i)
}

func mintUnits(amount int64) string {
	return vh.Z(common.VerifIntegerBig(common.NewInteger(uint64(amount))))
}

func (w *World) coqKeys(t *Tbl, ix []int) string {
	var el []string
	for _, i := range ix {
		el = append(el, t.HK(w.Keys[i]))
	}
	return vh.List(el, "N")
}

func (w *World) coqOuts(t *Tbl, outs [][]int) string {
	var os []string
	for _, ks := range outs {
		os = append(os, w.coqKeys(t, ks))
	}
	return vh.List(os, "(list N)")
}

func (w *World) coqTxd(t *Tbl, i int) string {
	s := &w.H.Txs[i]
	var ins string
	switch s.Kind {
	case "genesis":
		ins = "InGenesis"
	case "script":
		var el []string
		for _, r := range s.Ins {
			el = append(el, w.coqSlot(t, r))
		}
		ins = "(InUtxo " + vh.List(el, "slot") + ")"
	case "deposit":
		ins = "(InDeposit " + w.coqDep(t, s.Dep) + ")"
	case "mint":
		ins = fmt.Sprintf("(InMint %d %s)", s.Batch, mintUnits(s.Amount))
	}
	return fmt.Sprintf("{| t_hash := %s; t_ins := %s; t_outs := %s |}", t.HH(w.Hash[i]), ins, w.coqOuts(t, s.Outs))
}

func (w *World) CoqOp(t *Tbl, op *OpSpec) string {
	switch op.Op {
	case "lockinputs":
		return vh.App("LockInputs", w.coqTxd(t, op.Tx), coqBool(op.Fork))
	case "lockutxos":
		var el []string
		for _, r := range op.Slots {
			el = append(el, w.coqSlot(t, r))
		}
		return vh.App("LockUTXOs", vh.List(el, "slot"), t.HH(w.caller(op)), coqBool(op.Fork))
	case "lockdeposit":
		return vh.App("LockDeposit", w.coqDep(t, op.Dep), t.HH(w.caller(op)), coqBool(op.Fork))
	case "lockmint":
		return vh.App("LockMint", nu(op.Batch), mintUnits(op.Amount), t.HH(w.caller(op)), coqBool(op.Fork))
	case "lockghost":
		return vh.App("LockGhost", w.coqKeys(t, op.Keys), t.HH(w.caller(op)), coqBool(op.Fork))
	case "validate":
		// validateOutputs with every other rule met = filter + LockGhostKeys; the model's
		// LockGhostKeys has the same in-call duplicate refusal (the filter alone is CVo)
		return vh.App("LockGhost", w.coqKeys(t, flatten(w.H.Txs[op.Tx].Outs)), t.HH(w.Hash[op.Tx]), coqBool(op.Fork))
	case "writetx":
		return vh.App("WriteTx", w.coqTxd(t, op.Tx))
	case "finalize":
		if len(op.Txs) != 1 {
			panic("finalize carries one transaction")
		}
		return vh.App("Finalize", t.HH(w.Hash[op.Txs[0]]))
	}
	panic(op.Op)
}

func CoqRes(class string) string {
	switch class {
	case "ok":
		return "(Ok tt)"
	case "err":
		return "(@Err unit)"
	}
	return "(@Panic unit)"
}

// CoqDump renders a dump; ok=false when a DEPOSIT key is not the unique key of
// any deposit of the history.
func (w *World) CoqDump(t *Tbl, d *Dump) (string, bool) {
	ok := true
	sorted := func(m map[string]string) []string {
		var ks []string
		for k := range m {
			ks = append(ks, k)
		}
		sort.Strings(ks)
		return ks
	}
	var us, ds, ms, bs, fs, gs []string
	for _, k := range sorted(d.UTXO) {
		var hs string
		var i uint64
		p := strings.IndexByte(k, '/')
		hs = k[:p]
		fmt.Sscanf(k[p+1:], "%d", &i)
		us = append(us, fmt.Sprintf("((%s, %d), %s)", t.H(hs), i, t.H(d.UTXO[k])))
	}
	for _, k := range sorted(d.Dep) {
		spec, found := w.depKey[k]
		if !found {
			ok = false
			continue
		}
		ds = append(ds, fmt.Sprintf("(%s, %s)", w.coqDep(t, spec), t.H(d.Dep[k])))
	}
	var batches []uint64
	for b := range d.Mint {
		batches = append(batches, b)
	}
	sort.Slice(batches, func(i, j int) bool { return batches[i] < batches[j] })
	for _, b := range batches {
		amt, _ := new(big.Int).SetString(d.Mint[b].Amount, 10)
		ms = append(ms, fmt.Sprintf("(%d, (%s, %s))", b, t.H(d.Mint[b].Tx), vh.Z(amt)))
	}
	bk := func(m map[string]bool) []string {
		var ks []string
		for k := range m {
			ks = append(ks, k)
		}
		sort.Strings(ks)
		return ks
	}
	for _, k := range bk(d.Body) {
		bs = append(bs, t.H(k))
	}
	for _, k := range bk(d.Final) {
		fs = append(fs, t.H(k))
	}
	for _, k := range sorted(d.Ghost) {
		gs = append(gs, fmt.Sprintf("(%s, %s)", t.H(k), t.H(d.Ghost[k])))
	}
	return fmt.Sprintf("{| o_utxo := %s; o_dep := %s; o_mint := %s; o_body := %s; o_final := %s; o_ghost := %s |}",
		vh.List(us, "(slot * N)"), vh.List(ds, "(dep * N)"), vh.List(ms, "(N * (N * Z))"),
		vh.List(bs, "N"), vh.List(fs, "N"), vh.List(gs, "(N * N)")), ok
}

// CoqDelta renders what changed between two dumps (records written with their
// new value, bodies removed) and the family sizes after the call.
func (w *World) CoqDelta(t *Tbl, pre, post *Dump) (string, bool) {
	ok := true
	sorted := func(m map[string]string) []string {
		var ks []string
		for k := range m {
			ks = append(ks, k)
		}
		sort.Strings(ks)
		return ks
	}
	var us, ds, ms, bs, bd, fs, gs []string
	for _, k := range sorted(post.UTXO) {
		if v, had := pre.UTXO[k]; had && v == post.UTXO[k] {
			continue
		}
		p := strings.IndexByte(k, '/')
		var i uint64
		fmt.Sscanf(k[p+1:], "%d", &i)
		us = append(us, fmt.Sprintf("((%s, %d), %s)", t.H(k[:p]), i, t.H(post.UTXO[k])))
	}
	for _, k := range sorted(post.Dep) {
		if v, had := pre.Dep[k]; had && v == post.Dep[k] {
			continue
		}
		spec, found := w.depKey[k]
		if !found {
			ok = false
			continue
		}
		ds = append(ds, fmt.Sprintf("(%s, %s)", w.coqDep(t, spec), t.H(post.Dep[k])))
	}
	var batches []uint64
	for b := range post.Mint {
		if v, had := pre.Mint[b]; had && v == post.Mint[b] {
			continue
		}
		batches = append(batches, b)
	}
	sort.Slice(batches, func(i, j int) bool { return batches[i] < batches[j] })
	for _, b := range batches {
		amt, _ := new(big.Int).SetString(post.Mint[b].Amount, 10)
		ms = append(ms, fmt.Sprintf("(%d, (%s, %s))", b, t.H(post.Mint[b].Tx), vh.Z(amt)))
	}
	bk := func(m map[string]bool) []string {
		var ks []string
		for k := range m {
			ks = append(ks, k)
		}
		sort.Strings(ks)
		return ks
	}
	for _, k := range bk(post.Body) {
		if !pre.Body[k] {
			bs = append(bs, t.H(k))
		}
	}
	for _, k := range bk(pre.Body) {
		if !post.Body[k] {
			bd = append(bd, t.H(k))
		}
	}
	for _, k := range bk(post.Final) {
		if !pre.Final[k] {
			fs = append(fs, t.H(k))
		}
	}
	for _, k := range sorted(post.Ghost) {
		if v, had := pre.Ghost[k]; had && v == post.Ghost[k] {
			continue
		}
		gs = append(gs, fmt.Sprintf("(%s, %s)", t.H(k), t.H(post.Ghost[k])))
	}
	sizes := fmt.Sprintf("[%d;%d;%d;%d;%d;%d]", len(post.UTXO), len(post.Dep), len(post.Mint), len(post.Body), len(post.Final), len(post.Ghost))
	return fmt.Sprintf("{| x_utxo := %s; x_dep := %s; x_mint := %s; x_body := %s; x_body_del := %s; x_final := %s; x_ghost := %s; x_sizes := %s |}",
		vh.List(us, "(slot * N)"), vh.List(ds, "(dep * N)"), vh.List(ms, "(N * (N * Z))"),
		vh.List(bs, "N"), vh.List(bd, "N"), vh.List(fs, "N"), vh.List(gs, "(N * N)"), sizes), ok
}
