package c03lib

import (
	"encoding/hex"
	"fmt"
	"math/big"
	"os"
	"time"
	"strings"
	"sync"

	"github.com/MixinNetwork/mixin/common"
	"github.com/MixinNetwork/mixin/crypto"
	"verifharness/vh"
)

const Goroutines = 8

// Workers is the number of histories evaluated in parallel (one real store each).
const Workers = 6

// sim support for writetx (generation bias only)
func (w *World) simWrite(d0 *Dump, op *OpSpec) (string, *Dump) {
	d := d0.clone()
	s := &w.H.Txs[op.Tx]
	me := hx(w.Hash[op.Tx][:])
	if s.Kind != "genesis" {
		ts, _, _ := w.lockTargets(&OpSpec{Op: "lockinputs", Tx: op.Tx})
		for _, t := range ts {
			h, ok := w.holder(d, t)
			if !ok || h != me {
				return "panic", d0
			}
			if t.fam == "M" && d.Mint[t.batch].Amount != t.amount {
				return "panic", d0
			}
		}
		if len(ts) == 0 {
			if d.Body[me] {
				return "ok", d0
			}
			return "panic", d0
		}
	}
	d.Body[me] = true
	return "ok", d
}

func (w *World) Sim(d *Dump, op *OpSpec) (string, *Dump) {
	if op.Op == "writetx" {
		return w.simWrite(d, op)
	}
	return w.simStep(d, op)
}

type recLocker struct {
	called bool
	keys   []crypto.Key
}

func (r *recLocker) LockGhostKeys(keys []*crypto.Key, tx crypto.Hash, fork bool) error {
	r.called = true
	for _, k := range keys {
		r.keys = append(r.keys, *k)
	}
	return nil
}

var LastDebug string
var linTime time.Duration

type CaseRec struct {
	Kind, Key  string
	Nontrivial bool
	Coq        string
}

type Result struct {
	H     *History
	Cases []CaseRec
	Fails []Failure
}

type evalCtx struct {
	Property string
	res      *Result
}

func (e *evalCtx) Case(kind, key string, nontrivial bool, _ *History, coq string) {
	e.res.Cases = append(e.res.Cases, CaseRec{kind, key, nontrivial, coq})
}

// RunHistory executes a history on a fresh real store, applies the oracle and
// emits the Coq case(s).
func RunHistory(c *vh.Ctx, h *History) {
	Emit(c, Eval(c.Property, h))
}

func Emit(c *vh.Ctx, r *Result) {
	for _, cs := range r.Cases {
		c.Case(cs.Kind, cs.Key, cs.Nontrivial, r.H, cs.Coq)
	}
	for _, f := range r.Fails {
		c.Fail(f.Sig, f.What, r.H)
	}
}

// RunAll evaluates histories on `workers` parallel real stores and emits the
// results in the order of hs (so a run is reproducible).
func RunAll(c *vh.Ctx, hs []*History, workers int) {
	res := make([]*Result, len(hs))
	var wg sync.WaitGroup
	next := make(chan int)
	for k := 0; k < workers; k++ {
		wg.Add(1)
		go func() {
			defer wg.Done()
			for i := range next {
				res[i] = Eval(c.Property, hs[i])
			}
		}()
	}
	for i := range hs {
		next <- i
	}
	close(next)
	wg.Wait()
	for _, r := range res {
		Emit(c, r)
	}
}

// Eval executes a history on a fresh real store and applies the oracle.
func Eval(property string, h *History) *Result {
	res := &Result{H: h}
	c := &evalCtx{Property: property, res: res}
	var w *World
	var err error
	if len(h.Ops) == 0 && len(h.Conc) == 0 {
		w, err = BuildWorld(h) // render / filter cases need no store
	} else {
		w, err = NewWorld(h)
	}
	if err != nil {
		panic(err)
	}
	defer w.Close()
	fail := func(f Failure) { res.Fails = append(res.Fails, f) }
	if os.Getenv("VERIF_C03_TIMING") != "" {
		t0 := time.Now()
		defer func() { fmt.Fprintf(os.Stderr, "%s ops=%d conc=%d %.3f lin=%.3f\n", h.Kind, len(h.Ops), len(h.Conc), time.Since(t0).Seconds(), linTime.Seconds()) }()
	}

	for _, f := range w.CheckUniqueKeys() {
		fail(f)
	}

	if h.Render != nil {
		d := h.Render
		txt := d.RenderText()
		got := d.Data().UniqueKey()
		chain := mustHash(d.Chain)
		want := crypto.Sha256Hash(txt).ForNetwork(chain)
		if got != want {
			fail(Failure{"unique-key-text", "UniqueKey is not the hash of chain:tx:index for " + d.ident()})
		}
		txid, _ := hex.DecodeString(d.TxID)
		chainB, _ := hex.DecodeString(d.Chain)
		if c.Property == "C03" {
			c.Case("render", "render|"+d.ident(), true, h,
				"("+vh.App("CRender", new(big.Int).SetBytes(chainB).String(), plainBytes(txid), nu(d.Index), plainBytes(txt))+")%N")
		}
	}

	if h.VoOuts != nil {
		tx := common.NewTransactionV5(common.XINAssetId)
		tx.Inputs = []*common.Input{{Genesis: []byte("vo")}}
		tx.Outputs = w.outputs(h.VoOuts)
		rec := &recLocker{}
		amount := common.NewInteger(uint64(len(h.VoOuts)))
		if len(h.VoOuts) == 0 {
			amount = common.NewInteger(0)
		}
		var verr error
		pan, _ := vh.Catch(func() {
			verr = common.VerifC04ValidateOutputs(tx, rec, crypto.Blake3Hash([]byte("vo")), amount, false)
		})
		flat := flatten(h.VoOuts)
		seen, dup := map[int]bool{}, false
		for _, k := range flat {
			if seen[k] {
				dup = true
			}
			seen[k] = true
		}
		if dup && (verr == nil && !pan || rec.called) {
			fail(Failure{"in-tx-duplicate-not-filtered", "validateOutputs let a transaction with a repeated output key through to the locker"})
		}
		if !dup && (pan || verr != nil || !rec.called) {
			fail(Failure{"valid-outputs-rejected", "validateOutputs refused distinct valid output keys"})
		}
		if c.Property == "C04" {
			t := w.NewTbl()
			outs := w.coqOuts(t, h.VoOuts)
			var obs string
			switch {
			case pan:
				obs = vh.Pan("(list N)")
			case verr != nil || !rec.called:
				obs = vh.Err("(list N)")
			default:
				var el []string
				for _, k := range rec.keys {
					el = append(el, t.HK(k))
				}
				obs = vh.Ok(vh.List(el, "N"))
			}
			c.Case("filter", fmt.Sprint("vo|", h.VoOuts), len(flat) > 0, h,
				"("+vh.App("CVo", outs, obs)+")%N")
		}
	}

	if len(h.Ops) == 0 && len(h.Conc) == 0 {
		return res
	}

	t := w.NewTbl()
	var ops, obs []string
	okDump := true
	pre := w.Dump()
	reached := 0
	var sigParts []string
	for i := range h.Ops {
		op := &h.Ops[i]
		class := w.Exec(op, i)
		post := w.Dump()
		for _, f := range w.CheckStep(op, pre, post, class) {
			fail(f)
		}
		if class == "ok" || !pre.Equal(post) {
			reached++
		}
		sigParts = append(sigParts, op.Op[:5]+class[:1])
		ops = append(ops, w.CoqOp(t, op))
		ds, ok := w.CoqDelta(t, pre, post)
		okDump = okDump && ok
		obs = append(obs, "("+CoqRes(class)+", "+ds+")")
		pre = post
	}
	if !okDump {
		fail(Failure{"unknown-deposit-key", "a DEPOSIT record is keyed by no deposit of the history"})
		return res
	}
	key := h.Kind + "|" + strings.Join(sigParts, ",") + "|" + fmt.Sprint(len(pre.UTXO), len(pre.Ghost), len(pre.Final))

	if len(h.Conc) == 0 {
		fd, okf := w.CoqDump(t, pre)
		if !okf {
			fail(Failure{"unknown-deposit-key", "a DEPOSIT record is keyed by no deposit of the history"})
			return res
		}
		c.Case(h.Kind, key, reached >= 2, h, "("+vh.App("CHist", vh.List(ops, "op"), vh.List(obs, "(res unit * delta)"), fd)+")%N")
		return res
	}

	// concurrent batch
	n := len(h.Conc)
	classes := make([]string, n)
	lanes := make([][]int, Goroutines)
	for i := 0; i < n; i++ {
		lanes[i%Goroutines] = append(lanes[i%Goroutines], i)
	}
	start := make(chan struct{})
	var wg sync.WaitGroup
	for g := 0; g < Goroutines; g++ {
		wg.Add(1)
		go func(g int) {
			defer wg.Done()
			<-start
			for _, i := range lanes[g] {
				classes[i] = w.Exec(&h.Conc[i], len(h.Ops)+i)
			}
		}(g)
	}
	close(start)
	wg.Wait()
	final := w.Dump()
	for _, f := range w.CheckBatch(h.Conc, pre, final, classes) {
		LastDebug = fmt.Sprintf("classes=%v\npre:\n%s\nfinal:\n%s", classes, pre.String(), final.String())
		fail(f)
	}
	tl := time.Now()
	order, ok := w.Linearize(pre, h.Conc, lanes, classes, final)
	linTime = time.Since(tl)
	if !ok {
		LastDebug = fmt.Sprintf("classes=%v\npre:\n%s\nfinal:\n%s", classes, pre.String(), final.String())
		fail(Failure{"not-linearizable", "results and final state of the concurrent batch match no sequential order of its calls"})
		c.Case(h.Kind, key+"|conc", true, h, "")
		return res
	}
	var bops, brs []string
	for _, i := range order {
		bops = append(bops, w.CoqOp(t, &h.Conc[i]))
		brs = append(brs, CoqRes(classes[i]))
		sigParts = append(sigParts, h.Conc[i].Op[:5]+classes[i][:1])
	}
	fd, okf := w.CoqDump(t, final)
	if !okf {
		fail(Failure{"unknown-deposit-key", "a DEPOSIT record is keyed by no deposit of the history"})
		return res
	}
	key = h.Kind + "|" + strings.Join(sigParts, ",")
	args := []string{vh.List(ops, "op"), vh.List(obs, "(res unit * delta)"), vh.List(bops, "op"), vh.List(brs, "(res unit)"), fd}
	c.Case(h.Kind, key, true, h, "("+vh.App("CConc", args...)+")%N")
	return res
}

// CheckBatch: the property clauses on a concurrent batch (pre-state, results,
// final state), independent of any order.
func (w *World) CheckBatch(batch []OpSpec, pre, post *Dump, classes []string) []Failure {
	var fs []Failure
	add := func(sig, what string) { fs = append(fs, Failure{sig, what}) }
	type req struct {
		caller string
		fork   bool
		ok     bool
	}
	bySlot := map[string][]req{}
	for i := range batch {
		ts, caller, isLock := w.lockTargets(&batch[i])
		if !isLock {
			continue
		}
		for _, t := range ts {
			bySlot[t.String()] = append(bySlot[t.String()], req{caller, batch[i].Fork, classes[i] == "ok"})
		}
		// a loser gets an error: a slot held before the batch by a finalized
		// transaction can be taken by nobody else
		for _, t := range ts {
			h, ok := w.holder(pre, t)
			if ok && h != zeroHex && h != caller && pre.Final[h] && classes[i] == "ok" {
				add("finalized-displaced", fmt.Sprintf("concurrent %s for %s succeeded on %s held by finalized %s", batch[i].Op, caller, t, h))
			}
		}
	}
	slots := allSlots(post)
	for _, t := range slots {
		h2, _ := w.holder(post, t)
		h1, had := w.holder(pre, t)
		reqs := bySlot[t.String()]
		// the winner is the previous holder or a caller that succeeded
		if !(had && h1 == h2) {
			found := false
			for _, r := range reqs {
				if r.ok && r.caller == h2 {
					found = true
				}
			}
			if !found && !(t.fam == "U" && !had && h2 == zeroHex) {
				add("holder-from-nowhere", fmt.Sprintf("%s is held by %s, which no successful call of the batch requested", t, h2))
			}
		}
		if had && h1 != zeroHex && h1 != h2 {
			if pre.Final[h1] {
				add("finalized-displaced", fmt.Sprintf("%s was held by finalized %s, now %s", t, h1, h2))
			} else {
				forked := false
				for _, r := range reqs {
					if r.ok && r.fork {
						forked = true
					}
				}
				if !forked {
					add("holder-changed-without-fork", fmt.Sprintf("%s changed holder from %s to %s without a fork call", t, h1, h2))
				}
				if post.Body[h1] {
					add("takeover-kept-body", fmt.Sprintf("%s taken from pending %s whose body is still stored", t, h1))
				}
			}
		}
		// never two different ordinary winners on one slot
		winners := map[string]bool{}
		anyFork := false
		for _, r := range reqs {
			if r.ok && !r.fork && r.caller != zeroHex { // the zero hash is "no holder"
				winners[r.caller] = true
			}
			if r.ok && r.fork {
				anyFork = true
			}
		}
		if had && h1 != zeroHex {
			winners[h1] = true
		}
		if len(winners) > 1 && !anyFork {
			add("double-lock", fmt.Sprintf("%s was granted to %d different transactions by ordinary (fork=false) calls", t, len(winners)))
		}
	}
	for k, tx := range pre.Ghost {
		if post.Ghost[k] != tx {
			add("binding-changed", fmt.Sprintf("key %s was bound to %s, now %s", k, tx, post.Ghost[k]))
		}
	}
	// every key: all successful non-excepted binders are the bound transaction
	for i := range batch {
		op := &batch[i]
		if classes[i] != "ok" {
			continue
		}
		var keys []int
		var caller string
		switch op.Op {
		case "lockghost":
			c := w.caller(op)
			keys, caller = op.Keys, hx(c[:])
			if op.Fork && DocumentedExceptions[caller] {
				continue
			}
			w.ghostOwned(keys, caller, post, op.Op, add)
		case "validate":
			w.ghostOwned(flatten(w.H.Txs[op.Tx].Outs), hx(w.Hash[op.Tx][:]), post, op.Op, add)
		case "finalize":
			for _, ti := range op.Txs {
				w.ghostOwned(flatten(w.H.Txs[ti].Outs), hx(w.Hash[ti][:]), post, op.Op, add)
			}
		}
	}
	return fs
}

func (w *World) ghostOwned(keys []int, caller string, post *Dump, what string, add func(sig, what string)) {
	for _, k := range keys {
		if b := post.Ghost[hx(w.Keys[k][:])]; b != caller {
			add("key-bound-to-two", fmt.Sprintf("concurrent %s for %s succeeded but the key is bound to %s", what, caller, b))
		}
	}
}
