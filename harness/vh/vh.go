// Package vh is the shared library of the correspondence harness: one PRNG,
// Coq term printers, and the report the driver (bin/check) consumes.
package vh

import (
	"encoding/json"
	"flag"
	"fmt"
	"math/big"
	"os"
	"path/filepath"
	"sort"
	"strings"
)

// ---- PRNG: SplitMix64, every random choice derives from one state ---------

type Rand struct{ s uint64 }

func NewRand(seed uint64, property string) *Rand {
	r := &Rand{s: seed*0x9E3779B97F4A7C15 + 0x1234567}
	for _, c := range []byte(property) {
		r.s = r.s*31 + uint64(c)
		r.U64()
	}
	return r
}

func (r *Rand) U64() uint64 {
	r.s += 0x9E3779B97F4A7C15
	z := r.s
	z = (z ^ (z >> 30)) * 0xBF58476D1CE4E5B9
	z = (z ^ (z >> 27)) * 0x94D049BB133111EB
	return z ^ (z >> 31)
}

// Intn returns a value in [0,n).
func (r *Rand) Intn(n int) int {
	if n <= 0 {
		return 0
	}
	return int(r.U64() % uint64(n))
}

// Range returns a value in [lo,hi].
func (r *Rand) Range(lo, hi int) int { return lo + r.Intn(hi-lo+1) }

func (r *Rand) Bool() bool { return r.U64()&1 == 1 }

// Chance is true with probability num/den.
func (r *Rand) Chance(num, den int) bool { return r.Intn(den) < num }

func (r *Rand) Bytes(n int) []byte {
	b := make([]byte, n)
	for i := range b {
		b[i] = byte(r.U64())
	}
	return b
}

// Big returns a uniformly random non-negative integer below 2^bits.
func (r *Rand) Big(bits int) *big.Int {
	if bits <= 0 {
		return new(big.Int)
	}
	b := r.Bytes((bits + 7) / 8)
	v := new(big.Int).SetBytes(b)
	return v.Rsh(v, uint(len(b)*8-bits))
}

func (r *Rand) Fork(label string) *Rand {
	return NewRand(r.U64(), label)
}

// ---- Coq term printers ------------------------------------------------------

func Z(v *big.Int) string {
	if v.Sign() < 0 {
		return "(" + v.String() + ")%Z"
	}
	return v.String() + "%Z"
}
func ZI(v int64) string  { return Z(big.NewInt(v)) }
func ZU(v uint64) string { return Z(new(big.Int).SetUint64(v)) }
func N(v *big.Int) string {
	return v.String() + "%N"
}
func NU(v uint64) string { return fmt.Sprintf("%d%%N", v) }
func Nat(v int) string   { return fmt.Sprintf("%d%%nat", v) }
func Bool(b bool) string {
	if b {
		return "true"
	}
	return "false"
}

// Bytes prints a byte string as a Coq [list N].
func Bytes(b []byte) string {
	if len(b) == 0 {
		return "(@nil N)"
	}
	var sb strings.Builder
	sb.WriteString("[")
	for i, c := range b {
		if i > 0 {
			sb.WriteString(";")
		}
		fmt.Fprintf(&sb, "%d", c)
	}
	sb.WriteString("]%N")
	return sb.String()
}

// BytesAsN prints a byte string as one big-endian N (hashes, keys).
func BytesAsN(b []byte) string { return N(new(big.Int).SetBytes(b)) }

func List(elems []string, typ string) string {
	if len(elems) == 0 {
		return "(@nil " + typ + ")"
	}
	return "[" + strings.Join(elems, "; ") + "]"
}

func Ok(v string) string  { return "(Ok " + v + ")" }
func Err(t string) string { return "(@Err " + t + ")" }
func Pan(t string) string { return "(@Panic " + t + ")" }
func Some(v string) string { return "(Some " + v + ")" }
func None(t string) string { return "(@None " + t + ")" }
func App(f string, args ...string) string {
	return "(" + f + " " + strings.Join(args, " ") + ")"
}

// ---- panic capture ----------------------------------------------------------

// Catch runs f and reports whether it panicked (with the panic value).
func Catch(f func()) (panicked bool, val any) {
	defer func() {
		if r := recover(); r != nil {
			panicked = true
			val = r
		}
	}()
	f()
	return
}

// ---- report -------------------------------------------------------------------

type Failure struct {
	Sig  string `json:"sig"`  // structural signature, matched against known_findings.txt
	What string `json:"what"` // which clause of the property failed, on what
	Case any    `json:"case"` // canonical case for the replay file
}

type Report struct {
	Property           string         `json:"property"`
	Tier               string         `json:"tier"`
	Seed               uint64         `json:"seed"`
	Evaluations        int            `json:"evaluations"`
	DistinctNontrivial int            `json:"distinct_nontrivial"`
	Rule               string         `json:"rule"`
	Samples            []any          `json:"samples"`
	Distribution       map[string]int `json:"distribution"`
	Failures           []Failure      `json:"failures"`
	ModelCases         int            `json:"model_cases"`
	Notes              []string       `json:"notes,omitempty"`
}

type Ctx struct {
	Property string
	Tier     string // quick | thorough | search
	Seed     uint64
	Out      string
	Replay   string
	Rng      *Rand
	Rep      *Report

	cases    *os.File
	distinct map[string]bool
	caseJSON []any
}

func Start(property string) *Ctx {
	tier := flag.String("tier", "quick", "quick|thorough|search")
	seed := flag.Uint64("seed", 1, "seed")
	out := flag.String("out", "", "output directory")
	replay := flag.String("replay", "", "replay file")
	flag.Parse()
	if *out == "" {
		fmt.Fprintln(os.Stderr, "--out required")
		os.Exit(2)
	}
	if err := os.MkdirAll(*out, 0o755); err != nil {
		panic(err)
	}
	f, err := os.Create(filepath.Join(*out, "cases.txt"))
	if err != nil {
		panic(err)
	}
	c := &Ctx{Property: property, Tier: *tier, Seed: *seed, Out: *out, Replay: *replay,
		Rng: NewRand(*seed, property), cases: f, distinct: map[string]bool{}}
	c.Rep = &Report{Property: property, Tier: *tier, Seed: *seed, Distribution: map[string]int{}, Failures: []Failure{}, Samples: []any{}}
	return c
}

// Scale picks a case count by tier.
func (c *Ctx) Scale(quick, thorough int) int {
	switch c.Tier {
	case "thorough":
		return thorough
	case "search":
		return quick * 10
	}
	return quick
}

// Case records one explored case: kind for the distribution, a canonical key
// for distinctness, whether it is non-trivial by the harness' stated rule, its
// JSON form (samples/replay) and, if the model evaluates it, its Coq term.
func (c *Ctx) Case(kind string, key string, nontrivial bool, js any, coqTerm string) {
	c.Rep.Evaluations++
	c.Rep.Distribution[kind]++
	if nontrivial && !c.distinct[key] {
		c.distinct[key] = true
		c.Rep.DistinctNontrivial++
	}
	if len(c.Rep.Samples) < 6 && (c.Rep.Evaluations%7 == 1) {
		c.Rep.Samples = append(c.Rep.Samples, js)
	}
	if coqTerm != "" {
		if strings.Contains(coqTerm, "\n") {
			panic("coq term with newline")
		}
		fmt.Fprintln(c.cases, coqTerm)
		c.caseJSON = append(c.caseJSON, js)
		c.Rep.ModelCases++
	}
}

func (c *Ctx) Count(kind string) { c.Rep.Distribution[kind]++ }

func (c *Ctx) Fail(sig, what string, js any) {
	if len(c.Rep.Failures) < 50 {
		c.Rep.Failures = append(c.Rep.Failures, Failure{Sig: sig, What: what, Case: js})
	}
}

func (c *Ctx) Note(s string) { c.Rep.Notes = append(c.Rep.Notes, s) }

// ReplayCase loads the "case" member of the replay file into v.
func (c *Ctx) ReplayCase(v any) {
	b, err := os.ReadFile(c.Replay)
	if err != nil {
		panic(err)
	}
	var w struct {
		Case json.RawMessage `json:"case"`
	}
	if err := json.Unmarshal(b, &w); err != nil {
		panic(err)
	}
	if err := json.Unmarshal(w.Case, v); err != nil {
		panic(err)
	}
}

func (c *Ctx) Finish() {
	c.cases.Close()
	if len(c.Rep.Samples) == 0 && len(c.caseJSON) > 0 {
		c.Rep.Samples = append(c.Rep.Samples, c.caseJSON[0])
	}
	b, _ := json.MarshalIndent(c.Rep, "", " ")
	if err := os.WriteFile(filepath.Join(c.Out, "report.json"), b, 0o644); err != nil {
		panic(err)
	}
	// the JSON form of every model case, by index, so a mismatch can be replayed
	jb, _ := json.Marshal(c.caseJSON)
	os.WriteFile(filepath.Join(c.Out, "cases.json"), jb, 0o644)
	keys := make([]string, 0, len(c.Rep.Distribution))
	for k := range c.Rep.Distribution {
		keys = append(keys, k)
	}
	sort.Strings(keys)
	fmt.Printf("harness %s tier=%s seed=%d evaluations=%d distinct_nontrivial=%d model_cases=%d failures=%d\n",
		c.Property, c.Tier, c.Seed, c.Rep.Evaluations, c.Rep.DistinctNontrivial, c.Rep.ModelCases, len(c.Rep.Failures))
}
